import YardlModel.Evolution
import YardlProofs.EvolutionRefl
import YardlProofs.EvolutionClasses
import YardlGenerated.Tables

/-!
# C06 — Schema-evolution verdicts are total, reflexive and match the documented classes

Model: `YardlModel/Evolution.lean` — the structural core of change detection on resolved types with
nominal records/enums (`cmp` = compareTypes and the detect*Changes family, `recordChange`,
`enumChange`, `unionChange` = the greedy matching of detectUnionChanges), the messages of
validateTypeDefinitionChanges (`recordSev`, `enumSev`, `defsSev`) and validateProtocolChanges
(`protoVerdict`).

Proved here:
* `verdict_total` — the verdict is a total function (the model terminates on every pair of types);
  that the *tool* neither panics nor diverges is decided by the differential run.
* `primitive_change_table` — `primChange` agrees, on all 324 ordered pairs, with the table obtained by
  *executing* ValidateEvolution of the current source on one-step protocols (regenerated every run).
* `primitive_change_classes` — the documented classes on primitives: identical = silent; integers,
  floating point numbers and strings convert into each other with a warning; complex to complex with
  a warning; everything else is rejected.
* `primitive_change_error_symmetric` — a pair is rejected in one direction iff in the other (both
  conversions are generated).
* `wrappers_preserve_errors` — a change inside a stream, vector or optional is an error exactly when
  the inner change is; an unchanged inner type stays unchanged.
* `compare_reflexive` — a type compared with itself is unchanged, for **every** well-formed type
  (`wfT`: distinct field names per record, distinct symbols per enum, non-empty unions — what the
  validator enforces), at any nesting depth: records field by field, enums symbol by symbol, unions
  through the greedy first-fit matching of detectUnionChanges (which pairs every case with itself).
  `well_formedness_is_needed`: without distinct field names the statement is false of the model.
* `identical_versions_are_silent` — a protocol with distinct step names and well-formed step types,
  compared with itself, gets the verdict `ok` (no warning, no error), whatever definitions the new
  version has.
The driver reports for every generated version pair whether it satisfies these hypotheses.
* the documented classes of docs/cpp/evolution.md, for **every** well-formed type / protocol (not sample shapes):
  `removing_a_step_is_rejected`; `appending_a_step` (silent iff the step can be empty, else rejected);
  `optional_and_mandatory` (scalar <-> optional: warning, both ways) with `dimensioned_optional_rejected`
  (vectors / arrays / maps: rejected — the open finding of this property, as a theorem of the model);
  `union_case_added_or_removed` (warning, both ways); `adding_a_field` / `removing_a_field` of a record a
  step uses (silent when the field is nullable, warning otherwise; for records whose fields mention no
  other definition, so that the verdict does not depend on the rest of the two versions).
-/

namespace Yardl.C06
open Yardl Yardl.Evo

theorem verdict_total (env : Env) (new old : ETy) : ∃ s, stepVerdict env new old = s := ⟨_, rfl⟩

def sevOfCls : Cls → Nat
  | .same => 0 | .defChanged => 0 | .silent => 0 | .warn => 1 | .error => 2

theorem primitive_change_table :
    ∀ e ∈ Generated.primChangeTab, sevOfCls (primChange e.1 e.2.1) = e.2.2 := by
  decide +kernel

theorem primitive_change_table_complete : Generated.primChangeTab.length = 18 * 18 := by decide +kernel

theorem primitive_change_classes (a b : Prim) :
    primChange a a = .same ∧
    (a ≠ b → (pkind a).isNumber ∨ a = .string → (pkind b).isNumber ∨ b = .string → primChange a b = .warn) ∧
    (a ≠ b → pkind a = .complex → pkind b = .complex → primChange a b = .warn) ∧
    (a ≠ b → (pkind a = .bool ∨ pkind a = .date ∨ pkind a = .time ∨ pkind a = .datetime) → primChange a b = .error ∧ primChange b a = .error) := by
  cases a <;> cases b <;> decide

theorem primitive_change_error_symmetric (a b : Prim) : primChange a b = .error ↔ primChange b a = .error := by
  cases a <;> cases b <;> decide

theorem wrappers_preserve_errors (c : Cls) : (c.wrap = .error ↔ c = .error) ∧ (c.wrap = .same ↔ c = .same) ∧ (c.wrap.sev = .err ↔ c.sev = .err) := by
  cases c <;> decide

theorem compare_reflexive (t : ETy) (fuel : Nat) (hw : wfT t = true) (h : depth t ≤ fuel) : cmp fuel t t = .same :=
  cmp_self fuel t hw h

/-- the hypothesis is met by a type that uses every constructor, nested -/
example : wfT (.record 1 (.cons 10 (.union (.null (.cons (.prim .int32) (.cons (.enum 2 false .int32 [(5, 0), (6, 1)]) .nil))))
    (.cons 11 (.map (.prim .string) (.vector (.optional (.array (.prim .float32) .dynamic)) none)) .nil))) = true := by decide

/-- and it is needed: a record that declares the field `10` twice does not compare as unchanged with itself -/
theorem well_formedness_is_needed :
    cmp 5 (.record 1 (.cons 10 (.prim .int32) (.cons 10 (.prim .string) .nil)))
          (.record 1 (.cons 10 (.prim .int32) (.cons 10 (.prim .string) .nil))) = .defChanged := by decide

theorem identical_versions_are_silent (env : Env) (steps : List EStep) (hw : wfSteps steps = true) :
    protoVerdict env steps steps = .ok := by
  simp only [wfSteps, Bool.and_eq_true, List.all_eq_true] at hw
  exact protoVerdict_self env steps hw.1 hw.2

example : wfSteps [⟨1, .prim .int32, false⟩, ⟨2, .record 1 (.cons 10 (.optional (.prim .string)) .nil), true⟩] = true := by decide

theorem removing_a_step_is_rejected (env : Env) (new old : List EStep) (o : EStep) (ho : o ∈ old)
    (hgone : findStep new o.name = none) : protoVerdict env new old = .err :=
  removed_step_is_error env new old o ho hgone

theorem appending_a_step (env : Env) (old : List EStep) (s : EStep) (hw : wfSteps old = true)
    (hfresh : ∀ x ∈ old, x.name ≠ s.name) :
    protoVerdict env (old ++ [s]) old = if canBeEmpty s then .ok else .err := by
  simp only [wfSteps, Bool.and_eq_true, List.all_eq_true] at hw
  exact appended_step_verdict env old s hw.1 hw.2 hfresh

theorem optional_and_mandatory (fuel : Nat) (t : ETy) (hw : wfT t = true) (hs : plainScalar t = true) (h : depth t ≤ fuel) :
    cmp (fuel + 1) (.optional t) t = .warn ∧ cmp (fuel + 1) t (.optional t) = .warn :=
  ⟨make_optional_warns fuel t hw hs h, make_mandatory_warns fuel t hw hs h⟩

theorem dimensioned_optional_rejected (fuel : Nat) (t : ETy) (hd : isDim t = true) :
    cmp (fuel + 1) (.optional t) t = .error ∧ cmp (fuel + 1) t (.optional t) = .error :=
  dimensioned_optional_is_rejected fuel t hd

theorem union_case_added_or_removed (fuel : Nat) (l : List (Option ETy)) (c : Option ETy) (hne : l ≠ [])
    (hw : ∀ t, some t ∈ l → wfT t = true ∧ depth t ≤ fuel) :
    cmp (fuel + 1) (.union (casesOfList (l ++ [c]))) (.union (casesOfList l)) = .warn ∧
    cmp (fuel + 1) (.union (casesOfList l)) (.union (casesOfList (l ++ [c]))) = .warn :=
  Evo.union_case_added_or_removed fuel l c hne hw

theorem adding_a_field (r : Nat) (fs : List (Nat × ETy)) (n : Nat) (t : ETy)
    (hd : namesDistinct fs = true) (hfresh : ∀ e ∈ fs, e.1 ≠ n)
    (hw : ∀ e ∈ fs, wfT e.2 = true) (hdf : ∀ e ∈ fs, defFree e.2 = true) :
    stepVerdict [(r, .record r (fieldsOfList (fs ++ [(n, t)])))]
      (.record r (fieldsOfList (fs ++ [(n, t)]))) (.record r (fieldsOfList fs))
    = if isNullable t then .ok else .warn :=
  field_added_verdict r fs n t hd hfresh hw hdf

theorem removing_a_field (r : Nat) (fs : List (Nat × ETy)) (n : Nat) (t : ETy)
    (hd : namesDistinct fs = true) (hfresh : ∀ e ∈ fs, e.1 ≠ n)
    (hw : ∀ e ∈ fs, wfT e.2 = true) (hdf : ∀ e ∈ fs, defFree e.2 = true) (htd : defFree t = true) :
    stepVerdict [(r, .record r (fieldsOfList fs))]
      (.record r (fieldsOfList fs)) (.record r (fieldsOfList (fs ++ [(n, t)])))
    = if isNullable t then .ok else .warn :=
  field_removed_verdict r fs n t hd hfresh hw hdf htd

/-- the hypotheses are met: a two-field record gaining an optional vector field, a scalar made optional, a union gaining a case -/
example : namesDistinct [(10, ETy.prim .int32), (11, .vector (.prim .string) none)] = true ∧
    plainScalar (.record 1 (.cons 10 (.prim .int32) .nil)) = true ∧ isDim (.vector (.prim .int8) none) = true ∧
    defFree (.map (.prim .string) (.optional (.prim .float64))) = true := by decide

/-- non-vacuity / classes on concrete shapes: a record with an added optional field is a silent
    definition change; an added required field warns; a removed step is an error -/
example :
    let old := ETy.record 1 (.cons 10 (.prim .int32) .nil)
    let new1 := ETy.record 1 (.cons 10 (.prim .int32) (.cons 11 (.optional (.prim .string)) .nil))
    let new2 := ETy.record 1 (.cons 10 (.prim .int32) (.cons 11 (.prim .string) .nil))
    stepVerdict [(1, new1)] new1 old = .ok ∧ stepVerdict [(1, new2)] new2 old = .warn ∧
    protoVerdict [] [⟨1, .prim .int32, false⟩] [⟨1, .prim .int32, false⟩, ⟨2, .prim .int32, false⟩] = .err ∧
    protoVerdict [] [⟨1, .prim .int32, false⟩, ⟨2, .vector (.prim .int8) none, false⟩] [⟨1, .prim .int32, false⟩] = .ok := by
  decide

end Yardl.C06
