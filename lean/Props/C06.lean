import YardlModel.Evolution
import YardlGenerated.Tables

/-!
# C06 — Schema-evolution verdicts are total, reflexive and match the documented classes

Model: `YardlModel/Evolution.lean` — the structural core of change detection on resolved types with
nominal records/enums (`cmp` = compareTypes and the detect*Changes family, `recordChange`,
`enumChange`, `unionChange` = the greedy matching of detectUnionChanges), the messages of
validateTypeDefinitionChanges (`recordSev`, `enumSev`, `defsSev`) and validateProtocolChanges
(`protoVerdict`).

Proved here:
* `verdict_total` — the verdict is a total function (the model terminates on every pair of types);
  that the *tool* neither panics nor diverges is decided by the differential run.
* `primitive_change_table` — `primChange` agrees, on all 324 ordered pairs, with the table obtained by
  *executing* ValidateEvolution of the current source on one-step protocols (regenerated every run).
* `primitive_change_classes` — the documented classes on primitives: identical = silent; integers,
  floating point numbers and strings convert into each other with a warning; complex to complex with
  a warning; everything else is rejected.
* `primitive_change_error_symmetric` — a pair is rejected in one direction iff in the other (both
  conversions are generated).
* `wrappers_preserve_errors` — a change inside a stream, vector or optional is an error exactly when
  the inner change is; an unchanged inner type stays unchanged.
* `compare_reflexive_partial` — a type compared with itself is unchanged, for every type built from
  primitives, optionals, vectors, arrays and maps, at any depth. **Partial**: the full statement
  (`CompareReflexive` below, also over records, enums and unions) is not proved; it is evaluated by
  the driver on every generated version (identity pairs) and by the tool on identical versions.
-/

namespace Yardl.C06
open Yardl Yardl.Evo

theorem verdict_total (env : Env) (new old : ETy) : ∃ s, stepVerdict env new old = s := ⟨_, rfl⟩

def sevOfCls : Cls → Nat
  | .same => 0 | .defChanged => 0 | .silent => 0 | .warn => 1 | .error => 2

theorem primitive_change_table :
    ∀ e ∈ Generated.primChangeTab, sevOfCls (primChange e.1 e.2.1) = e.2.2 := by
  decide +kernel

theorem primitive_change_table_complete : Generated.primChangeTab.length = 18 * 18 := by decide +kernel

theorem primitive_change_classes (a b : Prim) :
    primChange a a = .same ∧
    (a ≠ b → (pkind a).isNumber ∨ a = .string → (pkind b).isNumber ∨ b = .string → primChange a b = .warn) ∧
    (a ≠ b → pkind a = .complex → pkind b = .complex → primChange a b = .warn) ∧
    (a ≠ b → (pkind a = .bool ∨ pkind a = .date ∨ pkind a = .time ∨ pkind a = .datetime) → primChange a b = .error ∧ primChange b a = .error) := by
  cases a <;> cases b <;> decide

theorem primitive_change_error_symmetric (a b : Prim) : primChange a b = .error ↔ primChange b a = .error := by
  cases a <;> cases b <;> decide

theorem wrappers_preserve_errors (c : Cls) : (c.wrap = .error ↔ c = .error) ∧ (c.wrap = .same ↔ c = .same) ∧ (c.wrap.sev = .err ↔ c.sev = .err) := by
  cases c <;> decide

/-- types built from primitives and the containers -/
def plain : ETy → Bool
  | .prim _ => true
  | .optional t => plain t
  | .vector t _ => plain t
  | .array t _ => plain t
  | .map k v => plain k && plain v
  | _ => false

/-- the full statement (not proved): every well-formed type compares as unchanged with itself -/
def CompareReflexive : Prop := ∀ (t : ETy) (fuel : Nat), depth t ≤ fuel → cmp fuel t t = .same

theorem arrKindSame_refl (k : ArrKind) : arrKindSame k k = true := by
  cases k <;> simp [arrKindSame]

theorem compare_reflexive_partial : ∀ (fuel : Nat) (t : ETy), plain t = true → depth t ≤ fuel → cmp fuel t t = .same
  | 0, t, _, h => by cases t <;> simp [depth] at h
  | fuel + 1, .prim p, _, _ => by simp [cmp, primChange]
  | fuel + 1, .optional t, hp, h => by
    have := compare_reflexive_partial fuel t (by simpa [plain] using hp) (by simp [depth] at h; omega)
    simp [cmp, this, Cls.wrap]
  | fuel + 1, .vector t l, hp, h => by
    have := compare_reflexive_partial fuel t (by simpa [plain] using hp) (by simp [depth] at h; omega)
    simp [cmp, this, Cls.wrap]
  | fuel + 1, .array t k, hp, h => by
    have := compare_reflexive_partial fuel t (by simpa [plain] using hp) (by simp [depth] at h; omega)
    simp [cmp, this, arrKindSame_refl]
  | fuel + 1, .map k v, hp, h => by
    simp [plain] at hp
    simp [depth] at h
    have hl := Nat.le_max_left (depth k) (depth v)
    have hr := Nat.le_max_right (depth k) (depth v)
    have h1 := compare_reflexive_partial fuel k hp.1 (by omega)
    have h2 := compare_reflexive_partial fuel v hp.2 (by omega)
    simp [cmp, h1, h2]
  | fuel + 1, .enum _ _ _ _, hp, _ => by simp [plain] at hp
  | fuel + 1, .record _ _, hp, _ => by simp [plain] at hp
  | fuel + 1, .union _, hp, _ => by simp [plain] at hp

/-- non-vacuity / classes on concrete shapes: a record with an added optional field is a silent
    definition change; an added required field warns; a removed step is an error -/
example :
    let old := ETy.record 1 (.cons 10 (.prim .int32) .nil)
    let new1 := ETy.record 1 (.cons 10 (.prim .int32) (.cons 11 (.optional (.prim .string)) .nil))
    let new2 := ETy.record 1 (.cons 10 (.prim .int32) (.cons 11 (.prim .string) .nil))
    stepVerdict [(1, new1)] new1 old = .ok ∧ stepVerdict [(1, new2)] new2 old = .warn ∧
    protoVerdict [] [⟨1, .prim .int32, false⟩] [⟨1, .prim .int32, false⟩, ⟨2, .prim .int32, false⟩] = .err ∧
    protoVerdict [] [⟨1, .prim .int32, false⟩, ⟨2, .vector (.prim .int8) none, false⟩] [⟨1, .prim .int32, false⟩] = .ok := by
  decide

end Yardl.C06
