import YardlProofs.WireStream
import YardlProofs.StreamsW
import YardlProofs.StreamsR
import YardlProofs.PyStreamSeq
import YardlProofs.CppStreamSeq
import YardlProofs.StreamCompose

/-!
# C01 — Binary write/read round trip and wire-format conformance

Property theorems only (helper lemmas live in `YardlProofs/`).

`enc`/`dec` are the published compact binary format *as implemented* (`YardlModel/Wire.lean`);
the generated C++/Python writers and readers are tied to them by the correspondence run of
`checks/c01.py`, which feeds Lean-encoded reference streams through freshly generated code
and decodes what the generated writers emit with `dec`.
-/

namespace Yardl.C01

/-- Every well-typed value of every wire type decodes from its encoding to exactly itself,
    whatever follows it in the stream (so encodings are self-delimiting). Unbounded in the type,
    the value, container sizes and the trailing bytes. -/
theorem value_round_trip (t : Ty) (v : Val) (rest : Bytes) (h : HasType t v = true) :
    dec t (enc t v ++ rest) = some (v, rest) :=
  dec_enc t v rest h

/-- A stream step decodes to exactly the items written for *every* block partition the writer
    may choose (one at a time, batches, empty stream, arbitrarily long). -/
theorem stream_round_trip (t : Ty) (part : List Nat) (items : List Val) (fuel : Nat) (rest : Bytes)
    (hp : partSum part = items.length) (hf : part.length < fuel)
    (ht : allList (HasType t) items = true) :
    decBlocks t fuel (encBlocks t part items ++ rest) = some (items, rest) :=
  decBlocks_encBlocks t part items fuel rest hp hf ht

/-- Whole protocol: header, then every step in order; decoding returns the schema and exactly
    the step values written. -/
theorem protocol_round_trip (p : Proto) (schema : Bytes) (parts : List (List Nat))
    (vals : List StepVal) (fuel : Nat) (rest : Bytes)
    (ht : hasStepVals p vals = true) (hp : partsOk p parts vals fuel) :
    ∃ body, decHeader (encHeader schema ++ encSteps p parts vals ++ rest) = some (schema, body) ∧
      decSteps p fuel body = some (vals, rest) := by
  refine ⟨encSteps p parts vals ++ rest, ?_, decSteps_encSteps p parts vals fuel rest ht hp⟩
  rw [List.append_assoc]
  exact decHeader_encHeader schema _

/-- Varint and zig-zag are inverse on all naturals / integers (not only 64-bit ones). -/
theorem varint_round_trip (n : Nat) (rest : Bytes) : decVar (encVar n ++ rest) = some (n, rest) :=
  decVar_encVar n rest

theorem zigzag_round_trip (i : Int) : unzigzag (zigzag i) = i := unzigzag_zigzag i

/-! ### Buffered streams: values that straddle the staging buffer

The C++ `CodedOutputStream` model emits exactly the concatenation of the per-operation bytes for
*every* buffer capacity ≥ 10, every initial fill level and *every* operation sequence (so for the
sequence any serializer issues, for any value), and no unchecked write leaves the buffer. -/
theorem cpp_writer_refines (s : COS) (ops : List WOp) (hc : 10 ≤ s.cap) (hinv : s.Inv)
    (hok : ∀ op ∈ ops, op.ok s.cap) :
    (Cpp.run s ops).abs = s.abs ++ (ops.map WOp.spec).flatten ∧ (Cpp.run s ops).Inv :=
  Cpp.run_spec ops s hc hinv hok

/-- Same for the Python `CodedOutputStream` model (`ensure_capacity`/`write_byte_no_check`,
    `write_unsigned_varint`, `write`, `write_bytes`). `WOp.ok` excludes `byteNoCheck`, the
    unchecked byte write the Python runtime issued before the `fix:` commit 00e76b6. -/
theorem py_writer_refines (s : COS) (ops : List WOp) (hc : 10 ≤ s.cap) (hinv : s.Inv)
    (hok : ∀ op ∈ ops, op.ok s.cap) :
    (Py.run s ops).abs = s.abs ++ (ops.map WOp.spec).flatten ∧ (Py.run s ops).Inv :=
  Py.run_spec ops s hc hinv hok

/-- The C++ `CodedInputStream` model returns what the format says, wherever the refill
    boundaries fall: capacity ≥ 10, any split of the pending bytes between buffer window and
    underlying stream. One theorem per primitive read. -/
theorem cpp_reader_refines_var64 (s : CIS) (hc : 10 ≤ s.cap) (hinv : s.Inv) (n : Nat) (rest : Bytes)
    (hn : n < 2 ^ 64) (hp : s.pending = encVar n ++ rest) :
    ∃ s', s.readVar64 = .ok n s' ∧ s'.pending = rest ∧ s'.Inv ∧ s'.cap = s.cap :=
  CIS.readVar64_ok s hc hinv n rest hn hp

theorem cpp_reader_refines_var32 (s : CIS) (hc : 10 ≤ s.cap) (hinv : s.Inv) (n : Nat) (rest : Bytes)
    (hn : n < 2 ^ 32) (hp : s.pending = encVar n ++ rest) :
    ∃ s', s.readVar32 = .ok n s' ∧ s'.pending = rest ∧ s'.Inv ∧ s'.cap = s.cap :=
  CIS.readVar32_ok s hc hinv n rest hn hp

theorem cpp_reader_refines_byte (s : CIS) (hc : 0 < s.cap) (hinv : s.Inv) (b : UInt8) (rest : Bytes)
    (hp : s.pending = b :: rest) :
    ∃ s', s.readByte = .ok b s' ∧ s'.pending = rest ∧ s'.Inv ∧ s'.cap = s.cap :=
  CIS.readByte_ok s hc hinv b rest hp

theorem cpp_reader_refines_bytes (s : CIS) (hc : 0 < s.cap) (hinv : s.Inv) (bs rest : Bytes)
    (hp : s.pending = bs ++ rest) :
    ∃ s', s.readBytes bs.length = .ok bs s' ∧ s'.pending = rest ∧ s'.Inv ∧ s'.cap = s.cap :=
  CIS.readBytes_ok s hc hinv bs rest hp

/-- **The C++ input stream, over whole read sequences**, ended by `VerifyFinished`: the reads matching what was
    written return exactly the written items, in order, for every capacity ≥ 10 and every split of the data between
    window and underlying stream; `Close` then accepts exactly when nothing follows. -/
theorem cpp_reader_refines_sequence (items : List CItem) (s : CIS) (hc : 10 ≤ s.cap) (hinv : s.Inv)
    (hi : ∀ i ∈ items, i.ok) (rest : Bytes) (hp : s.pending = encCItems items ++ rest) :
    ∃ s', s.readItems items = .ok (items.map CItem.val) s' ∧ s'.pending = rest ∧ s'.Inv ∧ s'.cap = s.cap :=
  CIS.readItems_ok items s hc hinv hi rest hp

theorem cpp_reader_sequence_then_finished (items : List CItem) (s : CIS) (hc : 10 ≤ s.cap) (hinv : s.Inv)
    (hi : ∀ i ∈ items, i.ok) (rest : Bytes) (hp : s.pending = encCItems items ++ rest) :
    ∃ s', s.readItems items = .ok (items.map CItem.val) s' ∧
      (rest = [] → ∃ s'', s'.verifyFinished = .ok () s'') ∧ (rest ≠ [] → s'.verifyFinished = .notFinished) :=
  CIS.readItems_then_finished items s hc hinv hi rest hp

/-! Non-vacuity: a varint straddling the refill followed by a byte, nothing after it. -/
example : (⟨10, [0xac], false, [0x02, 0x07]⟩ : CIS).pending = encCItems [.var64 300, .byte 7] ++ [] ∧
    (∀ i ∈ [CItem.var64 300, CItem.byte 7], i.ok) := by
  refine ⟨by simp [CIS.pending, encCItems, CItem.enc, encVar], ?_⟩
  intro i hi
  simp at hi
  rcases hi with h | h <;> subst h <;> simp [CItem.ok]

/-- **Writer and reader streams composed, 2 × 2**: what either buffered output stream (C++ / Python model) emits for a
    sequence of items, from an empty stream, is read back by either buffered input stream (C++ / Python model) as exactly
    those items — four independent capacities, any refill boundaries, any sequence, anything may follow. -/
theorem written_by_either_stream_read_by_either (items : List CItem) (hi : ∀ i ∈ items, i.ok)
    (w : COS) (hw : 10 ≤ w.cap) (hwinv : w.Inv) (hwe : w.abs = []) (out : Bytes)
    (hout : out = (Cpp.run w (items.map CItem.toW)).abs ∨ out = (Py.run w (items.map CItem.toW)).abs)
    (rest : Bytes) :
    (∀ r : CIS, 10 ≤ r.cap → r.Inv → r.pending = out ++ rest →
      ∃ r', r.readItems items = .ok (items.map CItem.val) r' ∧ r'.pending = rest) ∧
    (∀ r : PIS, 0 < r.cap → r.Inv → r.pending = out ++ rest →
      ∃ r', r.readItems (items.map CItem.toR) = .ok ((items.map CItem.val).map CItem.rval) r' ∧ r'.pending = rest) :=
  Yardl.written_by_either_read_by_either items hi w hw hwinv hwe out hout rest

example : (⟨10, [], [], false⟩ : COS).Inv ∧ (⟨10, [], [], false⟩ : COS).abs = [] := by simp [COS.Inv, COS.abs]

/-- Python writer stream to Python reader stream with **fixed-size numbers** (`struct` writes / reads) included. -/
theorem python_stream_round_trip (items : List RItem) (w : COS) (hw : 10 ≤ w.cap) (hwinv : w.Inv) (hwe : w.abs = [])
    (hi : ∀ i ∈ items, i.wok w.cap) (r : PIS) (hr : 0 < r.cap) (hrinv : r.Inv) (hf : ∀ i ∈ items, i.fits r.cap)
    (rest : Bytes) (hp : r.pending = (Py.run w (items.map RItem.toW)).abs ++ rest) :
    ∃ r', r.readItems items = .ok (items.map RItem.val) r' ∧ r'.pending = rest :=
  Yardl.python_stream_round_trip items w hw hwinv hwe hi r hr hrinv hf rest hp

/-- **The Python input stream, over whole read sequences.** A generated Python reader is a sequence of primitive
    reads of `CodedInputStream`; a reader that issues the reads matching what was written gets exactly the written
    items, in order, and leaves what follows unread — for every buffer size (fixed-size reads must fit it), every
    split of the data between buffer and underlying stream, every sequence of bytes, fixed-size numbers, varints
    and byte runs of any length. -/
theorem py_reader_refines_sequence (items : List RItem) (s : PIS) (hc : 0 < s.cap) (hinv : s.Inv)
    (hf : ∀ i ∈ items, i.fits s.cap) (rest : Bytes) (hp : s.pending = encItems items ++ rest) :
    ∃ s', s.readItems items = .ok (items.map RItem.val) s' ∧ s'.pending = rest ∧ s'.Inv ∧ s'.cap = s.cap :=
  PIS.readItems_ok items s hc hinv hf rest hp

/-- … and a sequence cut inside a byte, fixed-size number or byte run is an error, never a value (varints: C16). -/
theorem py_reader_sequence_cut (s : PIS) (i : RItem) (hv : ∀ n, i ≠ .var n) (hp : s.pending.length < i.enc.length) :
    (match s.readItem i with | .ok _ _ => false | _ => true) = true :=
  PIS.readItem_cut s i hv hp

/-! Non-vacuity: an 8-byte buffer, 300 as a varint straddling the first refill, a 4-byte number, a run longer than
    the buffer; the model delivers them (kernel-evaluated) and the hypotheses hold. -/
def exItems : List RItem := [.byte 7, .var 300, .fixed [1, 0, 0, 0], .bytes [1, 2, 3, 4, 5, 6, 7, 8, 9, 10, 11], .var 5]
example : (PIS.init 8 (encItems exItems ++ [0xff])).Inv := PIS.init_inv _ _
example : ∀ i ∈ exItems, i.fits 8 := by
  intro i hi
  simp [exItems] at hi
  rcases hi with h | h | h | h | h <;> subst h <;> simp [RItem.fits]
example : (match (PIS.init 8 (encItems exItems ++ [0xff])).readItems exItems with
    | .ok vs s' => vs == exItems.map RItem.val && s'.pending == [0xff] | _ => false) = true := by decide +kernel

/-! Non-vacuity of the stream theorems: a nearly full 10-byte buffer, a varint that must straddle. -/
example : (⟨10, [1, 2, 3, 4, 5, 6, 7, 8], [], false⟩ : COS).Inv := by simp [COS.Inv]
example : (WOp.var64 300).ok 10 := by simp [WOp.ok]
example : (⟨10, [0xac], false, [0x02, 0x07]⟩ : CIS).Inv ∧
    (⟨10, [0xac], false, [0x02, 0x07]⟩ : CIS).pending = encVar 300 ++ [0x07] := by
  refine ⟨by simp [CIS.Inv], ?_⟩
  simp [CIS.pending, encVar]

/-! Non-vacuity: a concrete protocol with a record, an optional, a union, a vector, a map and a
    stream meets the hypotheses. -/
def exTy : Ty :=
  .record (.cons "a" (.prim .int32) (.cons "b" (.optional (.prim .string))
    (.cons "c" (.union true (.cons "x" (.prim .uint8) (.cons "y" (.vector (.prim .int16) none) .nil)))
    (.cons "d" (.map (.prim .string) (.prim .int64)) .nil))))

def exVal : Val :=
  .record [.int (-300), .some (.str [0x68, 0x69]), .case 1 (.list [.int 1, .int (-1)]),
    .map [(.str [0x6b], .int 9223372036854775807)]]

example : HasType exTy exVal = true := by decide

example : hasStepVals [⟨"s", exTy, true⟩] [.stream [exVal, exVal]] = true := by decide

example : partsOk [⟨"s", exTy, true⟩] [[1, 1]] [.stream [exVal, exVal]] 3 := by
  simp [partsOk, partSum]

end Yardl.C01
