import YardlProofs.WireStream
import YardlProofs.StreamsW
import YardlProofs.StreamsR

/-!
# C01 — Binary write/read round trip and wire-format conformance

Property theorems only (helper lemmas live in `YardlProofs/`).

`enc`/`dec` are the published compact binary format *as implemented* (`YardlModel/Wire.lean`);
the generated C++/Python writers and readers are tied to them by the correspondence run of
`checks/c01.py`, which feeds Lean-encoded reference streams through freshly generated code
and decodes what the generated writers emit with `dec`.
-/

namespace Yardl.C01

/-- Every well-typed value of every wire type decodes from its encoding to exactly itself,
    whatever follows it in the stream (so encodings are self-delimiting). Unbounded in the type,
    the value, container sizes and the trailing bytes. -/
theorem value_round_trip (t : Ty) (v : Val) (rest : Bytes) (h : HasType t v = true) :
    dec t (enc t v ++ rest) = some (v, rest) :=
  dec_enc t v rest h

/-- A stream step decodes to exactly the items written for *every* block partition the writer
    may choose (one at a time, batches, empty stream, arbitrarily long). -/
theorem stream_round_trip (t : Ty) (part : List Nat) (items : List Val) (fuel : Nat) (rest : Bytes)
    (hp : partSum part = items.length) (hf : part.length < fuel)
    (ht : allList (HasType t) items = true) :
    decBlocks t fuel (encBlocks t part items ++ rest) = some (items, rest) :=
  decBlocks_encBlocks t part items fuel rest hp hf ht

/-- Whole protocol: header, then every step in order; decoding returns the schema and exactly
    the step values written. -/
theorem protocol_round_trip (p : Proto) (schema : Bytes) (parts : List (List Nat))
    (vals : List StepVal) (fuel : Nat) (rest : Bytes)
    (ht : hasStepVals p vals = true) (hp : partsOk p parts vals fuel) :
    ∃ body, decHeader (encHeader schema ++ encSteps p parts vals ++ rest) = some (schema, body) ∧
      decSteps p fuel body = some (vals, rest) := by
  refine ⟨encSteps p parts vals ++ rest, ?_, decSteps_encSteps p parts vals fuel rest ht hp⟩
  rw [List.append_assoc]
  exact decHeader_encHeader schema _

/-- Varint and zig-zag are inverse on all naturals / integers (not only 64-bit ones). -/
theorem varint_round_trip (n : Nat) (rest : Bytes) : decVar (encVar n ++ rest) = some (n, rest) :=
  decVar_encVar n rest

theorem zigzag_round_trip (i : Int) : unzigzag (zigzag i) = i := unzigzag_zigzag i

/-! ### Buffered streams: values that straddle the staging buffer

The C++ `CodedOutputStream` model emits exactly the concatenation of the per-operation bytes for
*every* buffer capacity ≥ 10, every initial fill level and *every* operation sequence (so for the
sequence any serializer issues, for any value), and no unchecked write leaves the buffer. -/
theorem cpp_writer_refines (s : COS) (ops : List WOp) (hc : 10 ≤ s.cap) (hinv : s.Inv)
    (hok : ∀ op ∈ ops, op.ok s.cap) :
    (Cpp.run s ops).abs = s.abs ++ (ops.map WOp.spec).flatten ∧ (Cpp.run s ops).Inv :=
  Cpp.run_spec ops s hc hinv hok

/-- Same for the Python `CodedOutputStream` model (`ensure_capacity`/`write_byte_no_check`,
    `write_unsigned_varint`, `write`, `write_bytes`). `WOp.ok` excludes `byteNoCheck`, the
    unchecked byte write the Python runtime issued before the `fix:` commit 00e76b6. -/
theorem py_writer_refines (s : COS) (ops : List WOp) (hc : 10 ≤ s.cap) (hinv : s.Inv)
    (hok : ∀ op ∈ ops, op.ok s.cap) :
    (Py.run s ops).abs = s.abs ++ (ops.map WOp.spec).flatten ∧ (Py.run s ops).Inv :=
  Py.run_spec ops s hc hinv hok

/-- The C++ `CodedInputStream` model returns what the format says, wherever the refill
    boundaries fall: capacity ≥ 10, any split of the pending bytes between buffer window and
    underlying stream. One theorem per primitive read. -/
theorem cpp_reader_refines_var64 (s : CIS) (hc : 10 ≤ s.cap) (hinv : s.Inv) (n : Nat) (rest : Bytes)
    (hn : n < 2 ^ 64) (hp : s.pending = encVar n ++ rest) :
    ∃ s', s.readVar64 = .ok n s' ∧ s'.pending = rest ∧ s'.Inv ∧ s'.cap = s.cap :=
  CIS.readVar64_ok s hc hinv n rest hn hp

theorem cpp_reader_refines_var32 (s : CIS) (hc : 10 ≤ s.cap) (hinv : s.Inv) (n : Nat) (rest : Bytes)
    (hn : n < 2 ^ 32) (hp : s.pending = encVar n ++ rest) :
    ∃ s', s.readVar32 = .ok n s' ∧ s'.pending = rest ∧ s'.Inv ∧ s'.cap = s.cap :=
  CIS.readVar32_ok s hc hinv n rest hn hp

theorem cpp_reader_refines_byte (s : CIS) (hc : 0 < s.cap) (hinv : s.Inv) (b : UInt8) (rest : Bytes)
    (hp : s.pending = b :: rest) :
    ∃ s', s.readByte = .ok b s' ∧ s'.pending = rest ∧ s'.Inv ∧ s'.cap = s.cap :=
  CIS.readByte_ok s hc hinv b rest hp

theorem cpp_reader_refines_bytes (s : CIS) (hc : 0 < s.cap) (hinv : s.Inv) (bs rest : Bytes)
    (hp : s.pending = bs ++ rest) :
    ∃ s', s.readBytes bs.length = .ok bs s' ∧ s'.pending = rest ∧ s'.Inv ∧ s'.cap = s.cap :=
  CIS.readBytes_ok s hc hinv bs rest hp

/-! Non-vacuity of the stream theorems: a nearly full 10-byte buffer, a varint that must straddle. -/
example : (⟨10, [1, 2, 3, 4, 5, 6, 7, 8], [], false⟩ : COS).Inv := by simp [COS.Inv]
example : (WOp.var64 300).ok 10 := by simp [WOp.ok]
example : (⟨10, [0xac], false, [0x02, 0x07]⟩ : CIS).Inv ∧
    (⟨10, [0xac], false, [0x02, 0x07]⟩ : CIS).pending = encVar 300 ++ [0x07] := by
  refine ⟨by simp [CIS.Inv], ?_⟩
  simp [CIS.pending, encVar]

/-! Non-vacuity: a concrete protocol with a record, an optional, a union, a vector, a map and a
    stream meets the hypotheses. -/
def exTy : Ty :=
  .record (.cons "a" (.prim .int32) (.cons "b" (.optional (.prim .string))
    (.cons "c" (.union true (.cons "x" (.prim .uint8) (.cons "y" (.vector (.prim .int16) none) .nil)))
    (.cons "d" (.map (.prim .string) (.prim .int64)) .nil))))

def exVal : Val :=
  .record [.int (-300), .some (.str [0x68, 0x69]), .case 1 (.list [.int 1, .int (-1)]),
    .map [(.str [0x6b], .int 9223372036854775807)]]

example : HasType exTy exVal = true := by decide

example : hasStepVals [⟨"s", exTy, true⟩] [.stream [exVal, exVal]] = true := by decide

example : partsOk [⟨"s", exTy, true⟩] [[1, 1]] [.stream [exVal, exVal]] 3 := by
  simp [partsOk, partSum]

end Yardl.C01
