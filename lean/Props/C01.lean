import YardlProofs.WireStream

/-!
# C01 — Binary write/read round trip and wire-format conformance

Property theorems only (helper lemmas live in `YardlProofs/`).

`enc`/`dec` are the published compact binary format *as implemented* (`YardlModel/Wire.lean`);
the generated C++/Python writers and readers are tied to them by the correspondence run of
`checks/c01.py`, which feeds Lean-encoded reference streams through freshly generated code
and decodes what the generated writers emit with `dec`.
-/

namespace Yardl.C01

/-- Every well-typed value of every wire type decodes from its encoding to exactly itself,
    whatever follows it in the stream (so encodings are self-delimiting). Unbounded in the type,
    the value, container sizes and the trailing bytes. -/
theorem value_round_trip (t : Ty) (v : Val) (rest : Bytes) (h : HasType t v = true) :
    dec t (enc t v ++ rest) = some (v, rest) :=
  dec_enc t v rest h

/-- A stream step decodes to exactly the items written for *every* block partition the writer
    may choose (one at a time, batches, empty stream, arbitrarily long). -/
theorem stream_round_trip (t : Ty) (part : List Nat) (items : List Val) (fuel : Nat) (rest : Bytes)
    (hp : partSum part = items.length) (hf : part.length < fuel)
    (ht : allList (HasType t) items = true) :
    decBlocks t fuel (encBlocks t part items ++ rest) = some (items, rest) :=
  decBlocks_encBlocks t part items fuel rest hp hf ht

/-- Whole protocol: header, then every step in order; decoding returns the schema and exactly
    the step values written. -/
theorem protocol_round_trip (p : Proto) (schema : Bytes) (parts : List (List Nat))
    (vals : List StepVal) (fuel : Nat) (rest : Bytes)
    (ht : hasStepVals p vals = true) (hp : partsOk p parts vals fuel) :
    ∃ body, decHeader (encHeader schema ++ encSteps p parts vals ++ rest) = some (schema, body) ∧
      decSteps p fuel body = some (vals, rest) := by
  refine ⟨encSteps p parts vals ++ rest, ?_, decSteps_encSteps p parts vals fuel rest ht hp⟩
  rw [List.append_assoc]
  exact decHeader_encHeader schema _

/-- Varint and zig-zag are inverse on all naturals / integers (not only 64-bit ones). -/
theorem varint_round_trip (n : Nat) (rest : Bytes) : decVar (encVar n ++ rest) = some (n, rest) :=
  decVar_encVar n rest

theorem zigzag_round_trip (i : Int) : unzigzag (zigzag i) = i := unzigzag_zigzag i

/-! Non-vacuity: a concrete protocol with a record, an optional, a union, a vector, a map and a
    stream meets the hypotheses. -/
def exTy : Ty :=
  .record (.cons "a" (.prim .int32) (.cons "b" (.optional (.prim .string))
    (.cons "c" (.union true (.cons "x" (.prim .uint8) (.cons "y" (.vector (.prim .int16) none) .nil)))
    (.cons "d" (.map (.prim .string) (.prim .int64)) .nil))))

def exVal : Val :=
  .record [.int (-300), .some (.str [0x68, 0x69]), .case 1 (.list [.int 1, .int (-1)]),
    .map [(.str [0x6b], .int 9223372036854775807)]]

example : HasType exTy exVal = true := by decide

example : hasStepVals [⟨"s", exTy, true⟩] [.stream [exVal, exVal]] = true := by decide

example : partsOk [⟨"s", exTy, true⟩] [[1, 1]] [.stream [exVal, exVal]] 3 := by
  simp [partsOk, partSum]

end Yardl.C01
