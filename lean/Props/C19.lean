import YardlModel.Expr
import YardlProofs.ExprW
import YardlGenerated.Tables

/-!
# C19 — Computed fields mean the same thing in every target language

Typing: theorems over the tables that `harness/py/gen_tables.py` regenerates on every run by
*executing* `dsl.GetCommonType` / `GetPrimitiveKind` on all 324 ordered pairs of primitives — so a
change to `commonTypeMap` that breaks one of them breaks the build of this file, and
`findAsym`/`findSmall` compute the failing pair for the replay.

Emission: the parenthesisation decision of the three emitters (model `emitParen*`, tied to the code
by parsing the emitted Python with CPython's own parser and by evaluating generated C++/Python)
coincides with the textbook criterion for the target grammars, for every target, operator and
operand operator.

Known limits (see known_findings.json): integer `/` is emitted as `//` in Python (floor) but `/`
in C++ (truncation) — they differ when exactly one operand is negative and the division is inexact.
-/

namespace Yardl.C19
open Yardl Yardl.Generated

def T : Tables := ⟨commonTypeTab, primInfoTab⟩

def commonType (a b : Prim) : Option Prim := lookup2 commonTypeTab a b

/-- Counterexample finder used by the check when `common_symm` no longer holds. -/
def findAsym : Option (Prim × Prim) :=
  (Prim.all.flatMap fun a => Prim.all.map fun b => (a, b)).find? fun (a, b) => commonType a b != commonType b a

theorem common_symm (a b : Prim) : commonType a b = commonType b a := by
  have h : ∀ a ∈ Prim.all, ∀ b ∈ Prim.all, commonType a b = commonType b a := by decide
  exact h a (Prim.mem_all a) b (Prim.mem_all b)

theorem common_idem (a : Prim) : commonType a a = some a := by
  have h : ∀ a ∈ Prim.all, commonType a a = some a := by decide
  exact h a (Prim.mem_all a)

/-- The static type of a binary expression does not depend on operand order. -/
theorem binop_type_symm (op : BinOp) (a b : Prim) : binopType T op a b = binopType T op b a := by
  have h : ∀ op ∈ BinOp.all, ∀ a ∈ Prim.all, ∀ b ∈ Prim.all, binopType T op a b = binopType T op b a := by decide
  exact h op (BinOp.mem_all op) a (Prim.mem_all a) b (Prim.mem_all b)

/-- Documented promotion: arithmetic on 8/16-bit integers is typed `int32`, never narrower. -/
theorem small_ints_promote (op : BinOp) (a b c : Prim) (h : binopType T op a b = some c) :
    c ≠ .int8 ∧ c ≠ .uint8 ∧ c ≠ .int16 ∧ c ≠ .uint16 := by
  have hh : ∀ op ∈ BinOp.all, ∀ a ∈ Prim.all, ∀ b ∈ Prim.all,
      binopType T op a b ≠ some .int8 ∧ binopType T op a b ≠ some .uint8 ∧
      binopType T op a b ≠ some .int16 ∧ binopType T op a b ≠ some .uint16 := by decide
  have := hh op (BinOp.mem_all op) a (Prim.mem_all a) b (Prim.mem_all b)
  rw [h] at this
  simp at this
  exact this

/-- Documented: `**` yields `float64` (never an integer type). -/
theorem pow_never_integer (a b c : Prim) (h : binopType T .pow a b = some c) : lookupKind primInfoTab c ≠ 0 := by
  have hh : ∀ a ∈ Prim.all, ∀ b ∈ Prim.all, ∀ c ∈ Prim.all,
      binopType T .pow a b = some c → lookupKind primInfoTab c ≠ 0 := by decide
  exact hh a (Prim.mem_all a) b (Prim.mem_all b) c (Prim.mem_all c) h

/-- Arithmetic is only defined between numeric operands and its type is numeric. -/
theorem binop_numeric (op : BinOp) (a b c : Prim) (h : binopType T op a b = some c) :
    lookupKind primInfoTab a ≤ 2 ∧ lookupKind primInfoTab b ≤ 2 ∧ lookupKind primInfoTab c ≤ 2 := by
  have hh : ∀ op ∈ BinOp.all, ∀ a ∈ Prim.all, ∀ b ∈ Prim.all, ∀ c ∈ Prim.all,
      binopType T op a b = some c →
      lookupKind primInfoTab a ≤ 2 ∧ lookupKind primInfoTab b ≤ 2 ∧ lookupKind primInfoTab c ≤ 2 := by decide
  exact hh op (BinOp.mem_all op) a (Prim.mem_all a) b (Prim.mem_all b) c (Prim.mem_all c) h

/-- The emitters parenthesise exactly the operands the target grammar requires (C++ `pow` is a
    function call and needs none). -/
theorem parentheses_correct (tgt : Target) (op child : BinOp) (h : ¬ (tgt = .cpp ∧ op = .pow)) :
    emitParenLeft tgt op child = mustParenLeft tgt op child ∧
    (emitParenRight tgt op child = mustParenRight tgt op child) := by
  have hh : ∀ tgt ∈ Target.all, ∀ op ∈ BinOp.all, ∀ child ∈ BinOp.all, ¬ (tgt = .cpp ∧ op = .pow) →
      emitParenLeft tgt op child = mustParenLeft tgt op child ∧
      emitParenRight tgt op child = mustParenRight tgt op child := by decide
  exact hh tgt (Target.mem_all tgt) op (BinOp.mem_all op) child (BinOp.mem_all child) h

example : binopType T .add .uint8 .int8 = some .int32 := by decide
example : binopType T .pow .int32 .int32 = some .float64 := by decide
example : binopType T .mul .float32 .int16 = some .float32 := by decide

/-! ### one meaning in every target: arithmetic in a fixed-width type -/

/-- C++ (`int64_t`, `uint64_t`, …) and NumPy scalars compute in a fixed-width type: every operand and every operation's
    result is wrapped into the type's range. Whenever the operands, the intermediate results and the result of a computed
    field lie in the range of the type, that computation yields the mathematical value of the expression (`Expr.eval`,
    exact integers, division truncating) — for every expression, every range and every record -/
theorem fixed_width_evaluation_is_exact (r : Rng) (ρ : Nat → Int) (e : Expr) (h : e.inRange r ρ = true) :
    e.evalW r ρ = e.eval ρ :=
  Expr.evalW_exact r ρ e h

/-- the hypothesis is met by `(x + y - z) / y` on `uint64` at the top of the range, and is needed: out of range, the
    fixed-width value differs from the mathematical one -/
example :
    let r : Rng := ⟨0, 18446744073709551615⟩
    let e : Expr := .bin .div (.bin .sub (.bin .add (.var 0) (.var 1)) (.var 2)) (.var 1)
    e.inRange r (fun i => [18446744073709551557, 7, 3].getD i 0) = true ∧
    (Expr.bin .add (.var 0) (.var 0)).evalW r (fun _ => 18446744073709551615) ≠ (Expr.bin .add (.var 0) (.var 0)).eval (fun _ => 18446744073709551615) := by
  decide


/-! ### integer literals -/

/-- an integer literal gets a type that holds it -/
theorem literal_fits_its_type (n : Int) (t : IntTy) (h : litType n = some t) : t.rng.contains n = true :=
  litType_contains n t h

/-- … the narrowest one of its signedness: no narrower type of yardl holds it -/
theorem literal_type_is_the_narrowest (n : Int) (t t' : IntTy) (h : litType n = some t) (hv : t'.valid = true)
    (hs : t'.signed = t.signed) (hn : t'.bits < t.bits) : t'.rng.contains n = false :=
  litType_narrowest n t t' h hv hs hn

/-- … and a literal is refused exactly when no 64-bit type holds it -/
theorem literal_refused_iff_out_of_64_bits (n : Int) :
    litType n = none ↔ (n < -9223372036854775808 ∨ 18446744073709551615 < n) :=
  litType_none_iff n

/-- at the edges: -128 is an int8, -129 an int16 (its magnitude has 8 bits: the sign needs one more), 255 a uint8, 256 a uint16 -/
example : litType (-128) = some ⟨true, 8⟩ ∧ litType (-129) = some ⟨true, 16⟩ ∧ litType (-200) = some ⟨true, 16⟩ ∧ litType 255 = some ⟨false, 8⟩ ∧
    litType 256 = some ⟨false, 16⟩ ∧ litType (-2147483649) = some ⟨true, 64⟩ ∧ litType 18446744073709551616 = none := by decide

end Yardl.C19
