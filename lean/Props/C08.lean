import YardlProofs.Case
import YardlGenerated.Pipeline

/-!
# C08 — Every accepted package yields well-formed code for every target and option set

What a theorem can carry here is the identifier derivation; that the generated Python imports and the
generated C++ compiles for every accepted package is decided by generating, importing and compiling
(`checks/c08.py`), not by a theorem.

Proved here, over the reserved-name tables regenerated from the current source (go/ast):
* `derived_identifier_never_reserved` — for every name and every case conversion, the derived
  identifier is not a reserved word of its target, provided the suffixed form of a reserved word is
  not itself reserved;
* `cpp_suffixes_escape`, `python_suffix_escapes`, `matlab_suffix_escapes` — that proviso holds for
  every table and every suffix the back ends use (`_field`, `_value`, `_Type`, `_`);
* `tables_cover_the_languages` — the tables contain the words that broke generated code when they were
  not escaped (C++ alternative tokens such as `not_eq`, Python keywords and builtins used by the
  generated code, MATLAB keywords).
The derivation applies the table to the *converted* name; the conversions themselves (`ToSnakeCase`, `ToUpperSnakeCase`, `ToPascalCase`)
are modelled in `YardlModel/Case.lean` (`checks/c08.py` compares conversion and escaping with the real functions on every reserved
word, exhaustively on short names over a small alphabet, and on random names). Tables are lists of characters (`*_codes`, regenerated
next to the string tables by the same translator): kernel evaluation over `String` takes minutes for tables of this size.
-/

namespace Yardl.C08
open Yardl.Case Yardl.Generated

theorem derived_identifier_never_reserved (reserved : List (List Nat)) (suffix cased : List Nat)
    (h : ∀ w ∈ reserved, (w ++ suffix) ∉ reserved) : ident reserved suffix cased ∉ reserved := by
  unfold ident
  by_cases hc : reserved.contains cased = true
  · simp only [hc, if_true]
    exact h cased (by simpa using hc)
  · simp only [hc]
    simpa using hc

/-- a suffix that no reserved word ends with escapes every reserved word (a linear check of the table instead of a quadratic one) -/
theorem suffix_escapes (reserved : List (List Nat)) (suffix : List Nat) (h : ∀ w ∈ reserved, stripSuffix suffix w = none) :
    ∀ w, (w ++ suffix) ∉ reserved := by
  intro w hm
  have := h _ hm
  rw [stripSuffix_append] at this
  cases this

theorem no_reserved_word_ends_with_a_suffix :
    (∀ w ∈ reserved_cpp_codes, stripSuffix (str "_field") w = none) ∧ (∀ w ∈ reserved_cpp_codes, stripSuffix (str "_value") w = none) ∧
    (∀ w ∈ reserved_cpp_types_codes, stripSuffix (str "_Type") w = none) ∧
    (∀ w ∈ reserved_python_codes, stripSuffix [us] w = none) ∧ (∀ w ∈ reserved_matlab_codes, stripSuffix [us] w = none) := by
  decide +kernel

theorem cpp_suffixes_escape :
    (∀ w ∈ reserved_cpp_codes, (w ++ str "_field") ∉ reserved_cpp_codes) ∧ (∀ w ∈ reserved_cpp_codes, (w ++ str "_value") ∉ reserved_cpp_codes) :=
  ⟨fun w _ => suffix_escapes _ _ no_reserved_word_ends_with_a_suffix.1 w, fun w _ => suffix_escapes _ _ no_reserved_word_ends_with_a_suffix.2.1 w⟩

theorem cpp_type_suffix_escapes : ∀ w ∈ reserved_cpp_types_codes, (w ++ str "_Type") ∉ reserved_cpp_types_codes :=
  fun w _ => suffix_escapes _ _ no_reserved_word_ends_with_a_suffix.2.2.1 w

/-- the names the generated C++ declares itself next to the model's types are escaped as type names (the table is
    `reservedNames` ++ `reservedTypeNames`, regenerated) -/
theorem cpp_types_table_covers : (∀ w ∈ reserved_cpp_codes, w ∈ reserved_cpp_types_codes) ∧ str "Version" ∈ reserved_cpp_types_codes := by
  refine ⟨fun w h => ?_, ?_⟩
  · unfold reserved_cpp_types_codes; exact List.mem_append_left _ h
  · unfold reserved_cpp_types_codes; apply List.mem_append_right; decide +kernel

theorem python_suffix_escapes : ∀ w ∈ reserved_python_codes, (w ++ [us]) ∉ reserved_python_codes :=
  fun w _ => suffix_escapes _ _ no_reserved_word_ends_with_a_suffix.2.2.2.1 w

theorem matlab_suffix_escapes : ∀ w ∈ reserved_matlab_codes, (w ++ [us]) ∉ reserved_matlab_codes :=
  fun w _ => suffix_escapes _ _ no_reserved_word_ends_with_a_suffix.2.2.2.2 w

theorem tables_cover_the_languages :
    (∀ w ∈ ["not_eq", "and_eq", "or_eq", "xor_eq", "bitand", "bitor", "compl", "class", "namespace", "template", "new", "delete", "float", "double", "int", "std", "yardl"],
      str w ∈ reserved_cpp_codes) ∧
    (∀ w ∈ ["None", "True", "False", "and", "class", "def", "lambda", "not", "float", "int", "bool"], str w ∈ reserved_python_codes) ∧
    (∀ w ∈ ["end", "function", "classdef", "if", "for", "while", "switch", "case", "otherwise", "return"], str w ∈ reserved_matlab_codes) := by
  decide +kernel

/-- names the generated code itself binds where a member of the model would be bound: the modules the generated Python imports
    and the `self` of its methods; the parameter `other` of the generated C++ comparison operators -/
theorem tables_cover_generated_code_names :
    (∀ w ∈ ["self", "yardl", "np", "npt", "typing", "datetime", "enum", "types"], str w ∈ reserved_python_codes) ∧ str "other" ∈ reserved_cpp_codes := by
  decide +kernel

theorem cpp_field_never_reserved (snake : List Nat) : ident reserved_cpp_codes (str "_field") snake ∉ reserved_cpp_codes :=
  derived_identifier_never_reserved _ _ _ cpp_suffixes_escape.1

theorem cpp_type_never_reserved (name : List Nat) : ident reserved_cpp_types_codes (str "_Type") name ∉ reserved_cpp_types_codes :=
  derived_identifier_never_reserved _ _ _ cpp_type_suffix_escapes

theorem python_member_never_reserved (cased : List Nat) : ident reserved_python_codes [us] cased ∉ reserved_python_codes :=
  derived_identifier_never_reserved _ _ _ python_suffix_escapes

theorem matlab_member_never_reserved (cased : List Nat) : ident reserved_matlab_codes [us] cased ∉ reserved_matlab_codes :=
  derived_identifier_never_reserved _ _ _ matlab_suffix_escapes

/-! ### distinct names stay distinct (`YardlModel/Case.lean`: the case conversions of `formatting.go` and the escaping on top of them)

The validator rejects two members of one record / protocol / enum whose *converted* names are equal (454b119). What is left to show is
that escaping reserved words does not merge two different converted names, and what the conversion can merge at all. -/

/-- the conversion to snake_case only moves underscores: it keeps the letters and digits of the name, in order, in lower case -/
theorem snake_case_keeps_the_letters (s : List Nat) : strip (snake s) = (strip s).map toLo := strip_snake s

/-- so two validator-accepted names (letters and digits) collide after conversion only if they differ at most in the case of letters -/
theorem same_snake_case_only_by_capitalisation {a b : List Nat} (ha : alnum a) (hb : alnum b) (h : snake a = snake b) :
    a.map toLo = b.map toLo := snake_eq_imp_lower_eq ha hb h

/-- Python and MATLAB members (fields, computed fields: suffix `_` on the snake_case name): distinct converted names get distinct
    identifiers, for **every** reserved table — a converted name never ends in `_` -/
theorem underscore_suffix_keeps_members_distinct (R : List (List Nat)) {a b : List Nat} (ha : alnum a) (hb : alnum b)
    (hane : a ≠ []) (hbne : b ≠ []) (h : ident R [us] (snake a) = ident R [us] (snake b)) : snake a = snake b :=
  ident_underscore_injective R _ _ (snake_last ha hane) (snake_last hb hbne) h

/-- Python and MATLAB enum values (suffix `_` on the UPPER_SNAKE_CASE name) -/
theorem underscore_suffix_keeps_enum_values_distinct (R : List (List Nat)) {a b : List Nat} (ha : alnum a) (hb : alnum b)
    (hane : a ≠ []) (hbne : b ≠ []) (h : ident R [us] (upperSnake a) = ident R [us] (upperSnake b)) : upperSnake a = upperSnake b :=
  ident_underscore_injective R _ _ (upperSnake_last ha hane) (upperSnake_last hb hbne) h

/-- **the defect found by trying to prove the same for C++ fields** (suffix `_field`, plain rule): the fields `class` and `classField`
    of one record both became `class_field` — for every table that reserves `class` and not `class_field` (fixed in 017b1ad) -/
theorem cpp_plain_field_suffix_collided (R : List (List Nat)) (h1 : str "class" ∈ R) (h2 : str "class_field" ∉ R) :
    ident R (str "_field") (snake (str "class")) = ident R (str "_field") (snake (str "classField")) ∧
    snake (str "class") ≠ snake (str "classField") := by
  have e1 : snake (str "class") = str "class" := by decide
  have e2 : snake (str "classField") = str "class" ++ str "_field" := by decide
  rw [e1, e2]
  have e3 : str "class" ++ str "_field" = str "class_field" := by decide
  refine ⟨ident_collides R _ _ h1 (by rw [e3]; exact h2), by decide⟩

/-- C++ fields after the repair (`needsFieldSuffix`: a name is suffixed when it is reserved or already looks like a suffixed name):
    distinct converted names get distinct identifiers, for every reserved table -/
theorem cpp_fields_stay_distinct (R : List (List Nat)) (x y : List Nat)
    (h : identRec R (str "_field") x = identRec R (str "_field") y) : x = y :=
  identRec_injective R _ x y (by decide) h

/-- … and still never a reserved word: no reserved word of the regenerated table ends in `_field` -/
theorem cpp_field_rec_never_reserved (x : List Nat) :
    identRec reserved_cpp_codes (str "_field") x ∉ reserved_cpp_codes := by
  have hR := no_reserved_word_ends_with_a_suffix.1
  intro hm
  unfold identRec at hm
  by_cases hn : needs reserved_cpp_codes (str "_field") x = true
  · simp only [hn, if_true] at hm
    have := hR _ hm
    rw [stripSuffix_append] at this
    cases this
  · simp only [hn] at hm
    exact hn (needs_of_reserved _ _ _ hm)

/-- PascalCase (C++ computed fields, enum values `k…`, protocol methods) is injective on member names -/
theorem pascal_case_keeps_members_distinct {a b : List Nat} (ha : alnum a) (hb : alnum b)
    (ha0 : ∃ c r, a = c :: r ∧ isLo c = true) (hb0 : ∃ c r, b = c :: r ∧ isLo c = true) (h : pascal a = pascal b) : a = b :=
  pascal_injective ha hb ha0 hb0 h

/-- the methods the generated C++ protocol classes derive from two steps coincide exactly when one PascalCase name is the other's
    followed by `Impl` — the recorded open finding (steps `foo` and `fooImpl`), with its witness -/
theorem cpp_step_methods_collide_iff (a b : List Nat) :
    str "Write" ++ pascal a ++ str "Impl" = str "Write" ++ pascal b ↔ pascal b = pascal a ++ str "Impl" :=
  cpp_write_impl_collision_iff a b

theorem cpp_step_methods_collide_witness :
    (cppWriterMethods (str "foo") false)[1]? = (cppWriterMethods (str "fooImpl") false)[0]? := by decide

/-- **end to end**: whatever the reserved tables are, the fields and computed fields of a record (the steps of a protocol) that the
    validator accepts — `membersOk`: each name matches `^[a-z][a-zA-Z0-9]{0,63}$`, none repeats, no two have the same snake_case form —
    get pairwise distinct member identifiers in Python, in MATLAB and in C++ -/
theorem accepted_members_get_distinct_identifiers (Rpy Rmat Rcpp : List (List Nat)) (names : List (List Nat))
    (h : membersOk names [] [] = true) :
    (names.map fun n => ident Rpy [us] (snake n)).Nodup ∧ (names.map fun n => ident Rmat [us] (snake n)).Nodup ∧
    (names.map fun n => identRec Rcpp (str "_field") (snake n)).Nodup :=
  Yardl.Case.accepted_members_get_distinct_identifiers Rpy Rmat Rcpp names h

example : membersOk [str "class", str "classField", str "fooBar", str "x1"] [] [] = true ∧ membersOk [str "fooBar", str "fooBAR"] [] [] = false := by decide

/-- the hypotheses of the theorems above are met by ordinary names -/
example : alnum (str "classField") ∧ str "classField" ≠ [] ∧ (∃ c r, str "classField" = c :: r ∧ isLo c = true) := by
  refine ⟨by unfold alnum; decide, by decide, ⟨99, str "lassField", by decide, by decide⟩⟩

end Yardl.C08
