import YardlModel.Names
import YardlGenerated.Pipeline

/-!
# C08 — Every accepted package yields well-formed code for every target and option set

What a theorem can carry here is the identifier derivation; that the generated Python imports and the
generated C++ compiles for every accepted package is decided by generating, importing and compiling
(`checks/c08.py`), not by a theorem.

Proved here, over the reserved-name tables regenerated from the current source (go/ast):
* `derived_identifier_never_reserved` — for every name and every case conversion, the derived
  identifier is not a reserved word of its target, provided the suffixed form of a reserved word is
  not itself reserved;
* `cpp_suffixes_escape`, `python_suffix_escapes`, `matlab_suffix_escapes` — that proviso holds for
  every table and every suffix the back ends use (`_field`, `_value`, `_Type`, `_`);
* `tables_cover_the_languages` — the tables contain the words that broke generated code when they were
  not escaped (C++ alternative tokens such as `not_eq`, Python keywords and builtins used by the
  generated code, MATLAB keywords).
The derivation applies the table to the *converted* name (`checks/c08.py` compares `ident` with the
real functions on every reserved word and on random names).
-/

namespace Yardl.C08
open Yardl.Names Yardl.Generated

theorem derived_identifier_never_reserved (reserved : List String) (suffix cased : String)
    (h : ∀ w ∈ reserved, (w ++ suffix) ∉ reserved) : ident reserved suffix cased ∉ reserved := by
  unfold ident
  by_cases hc : reserved.contains cased = true
  · simp only [hc, if_true]
    exact h cased (by simpa using hc)
  · simp only [hc]
    simpa using hc

theorem cpp_suffixes_escape :
    (∀ w ∈ reserved_cpp, (w ++ "_field") ∉ reserved_cpp) ∧ (∀ w ∈ reserved_cpp, (w ++ "_value") ∉ reserved_cpp) ∧
    (∀ w ∈ reserved_cpp, (w ++ "_Type") ∉ reserved_cpp) := by
  decide +kernel

theorem cpp_type_suffix_escapes : ∀ w ∈ reserved_cpp_types, (w ++ "_Type") ∉ reserved_cpp_types := by decide +kernel

/-- the names the generated C++ declares itself next to the model's types are escaped as type names (the table is regenerated
    from `reservedNames` ∪ `reservedTypeNames`) -/
theorem cpp_types_table_covers : (∀ w ∈ reserved_cpp, w ∈ reserved_cpp_types) ∧ "Version" ∈ reserved_cpp_types := by decide +kernel

theorem python_suffix_escapes : ∀ w ∈ reserved_python, (w ++ "_") ∉ reserved_python := by decide +kernel

theorem matlab_suffix_escapes : ∀ w ∈ reserved_matlab, (w ++ "_") ∉ reserved_matlab := by decide +kernel

theorem tables_cover_the_languages :
    (∀ w ∈ ["not_eq", "and_eq", "or_eq", "xor_eq", "bitand", "bitor", "compl", "class", "namespace", "template", "new", "delete", "float", "double", "int", "std", "yardl"],
      w ∈ reserved_cpp) ∧
    (∀ w ∈ ["None", "True", "False", "and", "class", "def", "lambda", "not", "float", "int", "bool"], w ∈ reserved_python) ∧
    (∀ w ∈ ["end", "function", "classdef", "if", "for", "while", "switch", "case", "otherwise", "return"], w ∈ reserved_matlab) := by
  decide +kernel

/-- names the generated code itself binds where a member of the model would be bound: the modules the generated Python imports
    and the `self` of its methods; the parameter `other` of the generated C++ comparison operators -/
theorem tables_cover_generated_code_names :
    (∀ w ∈ ["self", "yardl", "np", "npt", "typing", "datetime", "enum", "types"], w ∈ reserved_python) ∧ "other" ∈ reserved_cpp := by
  decide +kernel

theorem cpp_field_never_reserved (snake : String) : ident reserved_cpp "_field" snake ∉ reserved_cpp :=
  derived_identifier_never_reserved _ _ _ cpp_suffixes_escape.1

theorem cpp_type_never_reserved (name : String) : ident reserved_cpp_types "_Type" name ∉ reserved_cpp_types :=
  derived_identifier_never_reserved _ _ _ cpp_type_suffix_escapes

theorem python_member_never_reserved (cased : String) : ident reserved_python "_" cased ∉ reserved_python :=
  derived_identifier_never_reserved _ _ _ python_suffix_escapes

theorem matlab_member_never_reserved (cased : String) : ident reserved_matlab "_" cased ∉ reserved_matlab :=
  derived_identifier_never_reserved _ _ _ matlab_suffix_escapes

end Yardl.C08
