import YardlProofs.StreamsW
import YardlProofs.WireRoundTrip
import YardlProofs.StreamCompose

/-!
# C03 — Streams are portable across target languages and formats (binary part)

Both writers refine the same byte-level specification, so for the same sequence of primitive
writes they emit the same bytes whatever their (different) flush strategies
(`cpp_and_python_writers_agree`), and what either writes decodes under the shared format
(`Props/C01.lean`). The Python writer never indexes its staging buffer out of range
(`python_offset_stays_in_buffer`) — *provided no unchecked byte write is issued*; before
00e76b6 `UnionSerializer.write`/`StreamSerializer.write` issued one (`unchecked_byte_can_overflow`
keeps the witness). Python writes a union index as one byte, C++ as a varint: they coincide exactly
below 128 cases (`union_index_encodings_agree_iff`).
The NDJSON half and the generated code are covered by the correspondence run of `checks/c03.py`.
-/

namespace Yardl.C03

theorem cpp_and_python_writers_agree (cap₁ cap₂ : Nat) (ops : List WOp) (h₁ : 10 ≤ cap₁) (h₂ : 10 ≤ cap₂)
    (hok₁ : ∀ op ∈ ops, op.ok cap₁) (hok₂ : ∀ op ∈ ops, op.ok cap₂) :
    (Cpp.run ⟨cap₁, [], [], false⟩ ops).abs = (Py.run ⟨cap₂, [], [], false⟩ ops).abs := by
  have a := (Cpp.run_spec ops ⟨cap₁, [], [], false⟩ h₁ (by simp [COS.Inv]) hok₁).1
  have b := (Py.run_spec ops ⟨cap₂, [], [], false⟩ h₂ (by simp [COS.Inv]) hok₂).1
  rw [a, b]
  simp [COS.abs]

theorem python_offset_stays_in_buffer (s : COS) (ops : List WOp) (hc : 10 ≤ s.cap) (hinv : s.Inv)
    (hok : ∀ op ∈ ops, op.ok s.cap) :
    (Py.run s ops).buf.length ≤ (Py.run s ops).cap ∧ (Py.run s ops).oob = false := by
  have := (Py.run_spec ops s hc hinv hok).2
  exact this

/-- The pre-fix behaviour: an unchecked byte write with a full buffer leaves the buffer
    (Python: `IndexError: bytearray index out of range`). -/
theorem unchecked_byte_can_overflow :
    (Py.run ⟨10, [], [], false⟩ [.bytes [1, 2, 3, 4, 5, 6, 7, 8, 9, 10], .byteNoCheck 0]).oob = true := by
  decide

theorem union_index_encodings_agree_iff (i : Nat) (hi : i < 256) :
    encVar i = [UInt8.ofNat i] ↔ i < 128 := by
  constructor
  · intro h
    unfold encVar at h
    by_cases hl : i < 128
    · exact hl
    · simp [hl] at h
      have := h.2
      unfold encVar at this
      split at this <;> simp at this
  · intro h
    unfold encVar
    simp [h]

/-- **Across languages at the stream level**: what the Python output stream model emits for any item sequence the C++
    input stream model reads back as exactly those items, and what the C++ output stream emits the Python input stream
    reads back — all four buffer capacities independent, refill boundaries anywhere, anything may follow. -/
theorem streams_cross_languages (items : List CItem) (hi : ∀ i ∈ items, i.ok)
    (w : COS) (hw : 10 ≤ w.cap) (hwinv : w.Inv) (hwe : w.abs = []) (rest : Bytes) :
    (∀ r : CIS, 10 ≤ r.cap → r.Inv → r.pending = (Py.run w (items.map CItem.toW)).abs ++ rest →
      ∃ r', r.readItems items = .ok (items.map CItem.val) r' ∧ r'.pending = rest) ∧
    (∀ r : PIS, 0 < r.cap → r.Inv → r.pending = (Cpp.run w (items.map CItem.toW)).abs ++ rest →
      ∃ r', r.readItems (items.map CItem.toR) = .ok ((items.map CItem.val).map CItem.rval) r' ∧ r'.pending = rest) :=
  ⟨(Yardl.written_by_either_read_by_either items hi w hw hwinv hwe _ (Or.inr rfl) rest).1,
   (Yardl.written_by_either_read_by_either items hi w hw hwinv hwe _ (Or.inl rfl) rest).2⟩

example : (⟨10, [], [], false⟩ : COS).Inv ∧ (⟨10, [], [], false⟩ : COS).abs = [] := by simp [COS.Inv, COS.abs]

end Yardl.C03
