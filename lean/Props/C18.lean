import YardlProofs.Imports
import YardlProofs.Namespaces
import YardlProofs.Resolve
import YardlGenerated.Tables

/-!
# C18 — Package imports resolve correctly for every import graph

Model: `YardlModel/Imports.lean` (`collectPackages`, structural on the depth counter, so loading
terminates by construction for every graph). Theorems hold for *every* world (any number of
packages, any shape):

* a successful load contains the root, every package it contains is reachable and has all its
  imports loaded, and no namespace is bound to two directories (`load_ok`);
* hence every reachable package is loaded (`reachable_loaded`) and two reachable directories never
  claim the same namespace (`no_namespace_conflict`) — i.e. a reachable conflict makes loading fail.

Cycle / depth errors and the order dependence at the depth limit are kept as kernel-checked
witnesses; the general statements "cycle ⇒ error", "conflict ⇒ error", "deeper than the limit ⇒ error"
are decided for all graphs on ≤ 3 packages (all import orders) and random larger ones by
`checks/c18.py`, which compares the model with an independent graph-theoretic specification and
with the real CLI.
-/

namespace Yardl.C18
open Yardl.Imports Yardl.Generated

theorem load_ok_sound (w : World) (root : Nat) (c : Coll) (h : load w maxImportDepth root = .ok c) :
    (∃ p, w root = some p ∧ (p.ns, root) ∈ c) ∧ (∀ x ∈ c, Closed w c x ∧ Reach w root x.2) ∧ Fn c :=
  load_ok w maxImportDepth root c h

theorem every_reachable_package_loaded (w : World) (root : Nat) (c : Coll)
    (h : load w maxImportDepth root = .ok c) (dir : Nat) (hr : Reach w root dir) :
    ∃ p, w dir = some p ∧ (p.ns, dir) ∈ c :=
  reachable_loaded w maxImportDepth root c h dir hr

theorem namespace_conflict_is_an_error (w : World) (root d₁ d₂ : Nat) (p₁ p₂ : Pkg)
    (h₁ : Reach w root d₁) (h₂ : Reach w root d₂) (w₁ : w d₁ = some p₁) (w₂ : w d₂ = some p₂)
    (hns : p₁.ns = p₂.ns) (hne : d₁ ≠ d₂) : ∀ c, load w maxImportDepth root ≠ .ok c := by
  intro c h
  exact hne (no_namespace_conflict w maxImportDepth root c h d₁ d₂ p₁ p₂ h₁ h₂ w₁ w₂ hns)

theorem missing_import_is_an_error (w : World) (root dir : Nat) (hr : Reach w root dir) (hm : w dir = none) :
    ∀ c, load w maxImportDepth root ≠ .ok c := by
  intro c h
  obtain ⟨p, hp, _⟩ := reachable_loaded w maxImportDepth root c h dir hr
  rw [hm] at hp
  cases hp

/-! ### Witnesses (kernel-evaluated) -/

/-- The error a load ends with (`none` = success). -/
def errOf (r : Except LoadErr Coll) : Option LoadErr :=
  match r with
  | .ok _ => none
  | .error e => some e

/-- chain world: directory `i` has namespace `i` and imports `next i`. -/
def mk (edges : List (Nat × List Nat)) : World := fun d =>
  match edges.find? (fun e => e.1 == d) with
  | some e => some ⟨d, e.2⟩
  | none => none

theorem two_cycle_rejected : errOf (load (mk [(0, [1]), (1, [0])]) maxImportDepth 0) = some .cycle := by decide
theorem self_import_rejected : errOf (load (mk [(0, [0])]) maxImportDepth 0) = some .cycle := by decide
theorem cycle_through_second_import_rejected :
    errOf (load (mk [(0, [1, 2]), (1, []), (2, [0])]) maxImportDepth 0) = some .cycle := by decide
theorem diamond_accepted : errOf (load (mk [(0, [1, 2]), (1, [3]), (2, [3]), (3, [])]) maxImportDepth 0) = none := by decide

/-- two directories (1 and 2) both claiming namespace 7 -/
def conflictWorld : World := fun d =>
  match d with
  | 0 => some ⟨0, [1, 2]⟩ | 1 => some ⟨7, []⟩ | 2 => some ⟨7, []⟩ | _ => none
theorem conflict_rejected : errOf (load conflictWorld maxImportDepth 0) = some .conflict := by decide

/-- a chain 0 → 1 → … → 11 is deeper than the limit -/
def chain12 : World := mk ((List.range 11).map (fun i => (i, [i + 1])) ++ [(11, [])])
theorem deep_chain_rejected : errOf (load chain12 maxImportDepth 0) = some .depth := by decide

/-- KNOWN FINDING (order dependence at the depth limit): root 0 imports the chain head 1 and the
    leaf 10; the chain 1 → … → 9 → 10 reaches 10 at depth 10. Listing the chain first fails,
    listing the leaf first memoises it and succeeds. -/
def diamondAtLimit (first second : Nat) : World :=
  mk ([(0, [first, second])] ++ (List.range 9).map (fun i => (i + 1, [i + 2])) ++ [(10, [])])
theorem order_dependence_at_limit :
    errOf (load (diamondAtLimit 1 10) maxImportDepth 0) = some .depth ∧
    errOf (load (diamondAtLimit 10 1) maxImportDepth 0) = none := by decide

/-! ### usable from every importer: `References` after `parsePackageNamespaces` -/

/-- for every acyclic import graph (`rank` decreases along every import — what a successful load and the dependency sort give), after the
    memoised depth-first walk of `parsePackageNamespaces` every parsed namespace refers to exactly the namespaces of the packages it imports, in
    manifest order — also when an imported package had already been parsed through another importer (a diamond, a shortcut edge) -/
theorem every_importer_references_all_its_imports (G : Nat → List Nat) (rank : Nat → Nat) (hr : ∀ n, ∀ i ∈ G n, rank i < rank n)
    (fuel root : Nat) (hf : rank root < fuel) :
    ∀ m, Namespaces.has (Namespaces.parseNs G fuel root []) m = true →
      Namespaces.get (Namespaces.parseNs G fuel root []) m = some (G m) :=
  Namespaces.references_are_the_imports G rank hr fuel root hf

/-- the hypotheses are met by the shortcut world Top → [Basic, Mid], Mid → [Basic] — and Mid does refer to Basic although Top reached it first -/
example :
    let G : Nat → List Nat := fun n => if n = 0 then [1, 2] else if n = 2 then [1] else []
    Namespaces.parseNs G 5 0 [] = [(0, [1, 2]), (1, []), (2, [1])] := by decide


/-- the list of namespaces every validation pass and generator walks (`flattenNamespaces`): each namespace once, and every namespace after all the
    namespaces it refers to — for every acyclic graph of references -/
theorem namespaces_are_listed_imports_first (refs : Nat → List Nat) (rank : Nat → Nat) (hr : ∀ n, ∀ i ∈ refs n, rank i < rank n)
    (fuel root : Nat) (hf : rank root < fuel) :
    Namespaces.Ordered refs (Namespaces.flatten refs fuel root []) ∧ root ∈ Namespaces.flatten refs fuel root [] :=
  Namespaces.flatten_ordered refs rank hr fuel root hf

example :
    let refs : Nat → List Nat := fun n => if n = 0 then [1, 2] else if n = 2 then [1] else []
    Namespaces.flatten refs 5 0 [] = [1, 2, 0] := by decide


/-! ### which namespaces a package can refer to (`YardlModel/Resolve.lean`) -/

/-- a type name resolves only into the package itself or into a package it imports, directly or through its imports — and only to a
    definition that exists; in particular not into a package that merely happens to be loaded because somebody else imports it
    (the defect fixed in 3dc19f7: the world `App → [B, C]` with `B` using `C.T`) -/
theorem names_resolve_into_imported_packages_only (refs : Nat → List Nat) (defs : List (Nat × Nat)) (fuel cur : Nat) (nm : Resolve.Name) (m t : Nat)
    (h : Resolve.resolve defs (Resolve.visible refs fuel cur) cur nm = some (m, t)) :
    (m = cur ∨ Resolve.Reach refs cur m) ∧ (m, t) ∈ defs :=
  Resolve.resolve_sound refs defs fuel cur nm m t h

/-- the types of an imported package are usable under their namespace from every package that imports it -/
theorem imported_types_are_usable (refs : Nat → List Nat) (defs : List (Nat × Nat)) (fuel cur m t : Nat)
    (hi : m ∈ refs cur) (hd : (m, t) ∈ defs) :
    Resolve.resolve defs (Resolve.visible refs (fuel + 1) cur) cur (.qual m t) = some (m, t) :=
  Resolve.imported_types_resolve refs defs fuel cur m t hi hd

/-- **a package sees exactly itself and what it imports, directly or through its imports** (every acyclic import graph, any import order;
    `rank` witnesses acyclicity, which the loader has established) -/
theorem a_package_sees_exactly_what_it_imports (refs : Nat → List Nat) (rank : Nat → Nat) (hr : ∀ n, ∀ i ∈ refs n, rank i < rank n)
    (fuel n m : Nat) (hf : rank n < fuel) : m ∈ Resolve.visible refs fuel n ↔ (m = n ∨ Resolve.Reach refs n m) :=
  Resolve.visible_iff refs rank hr fuel n m hf

/-- so the types of every package reached through imports resolve under their namespace, however many packages lie in between -/
theorem transitively_imported_types_are_usable (refs : Nat → List Nat) (rank : Nat → Nat) (hr : ∀ n, ∀ i ∈ refs n, rank i < rank n)
    (defs : List (Nat × Nat)) (fuel cur m t : Nat) (hf : rank cur < fuel) (hi : Resolve.Reach refs cur m) (hd : (m, t) ∈ defs) :
    Resolve.resolve defs (Resolve.visible refs fuel cur) cur (.qual m t) = some (m, t) := by
  have hv := Resolve.visible_complete refs rank hr fuel cur m hf hi
  simp [Resolve.resolve, hv, hd]

/-- `GetAllChildReferences` returns nothing that is not imported -/
theorem child_references_are_imports (refs : Nat → List Nat) (f n m : Nat) (h : m ∈ Resolve.allRefs refs f n []) : Resolve.Reach refs n m := by
  rcases Resolve.allRefs_sound refs f n [] m h with h1 | h1
  · cases h1
  · exact h1

/-- non-vacuity and the witness of the repaired defect: `B` (1) no longer resolves `C.T` in `App(0) → [B(1), C(2)]`; `App` does -/
example :
    let refs : Nat → List Nat := fun n => if n = 0 then [1, 2] else []
    Resolve.resolve [(2, 7)] (Resolve.visible refs 5 1) 1 (.qual 2 7) = none ∧
    Resolve.resolve [(2, 7)] (Resolve.visible refs 5 0) 0 (.qual 2 7) = some (2, 7) := by decide

end Yardl.C18
