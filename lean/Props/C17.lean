import YardlProofs.WireStream
import YardlProofs.Batch
import YardlProofs.BatchDest

/-!
# C17 — Stream contents do not depend on batching, and items are independent

* Writer side: the block partition chosen by the writer (one item per block, batches, any mixture)
  does not affect what a reader decodes (`blocks_irrelevant`).
* Reader side: a model of `ReadBlock` / `ReadBlocksIntoVector` with the `current_block_remaining_`
  counter carried across calls. For every mixture of single and batched reads with any positive
  capacities, the items delivered so far followed by the items still in the stream are exactly the
  items written (`any_read_schedule_is_a_prefix`), and once the end is reported everything has been
  delivered exactly once, in order (`any_read_schedule_delivers_all`).
* Item independence in the specification is by construction (`dec` is a function of the bytes);
  for the implementation (readers that reuse destination objects) it is decided by the
  correspondence run of `checks/c17.py` with shape-varying consecutive items — this is where the
  `ReadMap` defect fixed by 41fd507 was found.
-/

namespace Yardl.C17

theorem blocks_irrelevant (t : Ty) (part₁ part₂ : List Nat) (items : List Val) (f₁ f₂ : Nat) (rest : Bytes)
    (h₁ : partSum part₁ = items.length) (h₂ : partSum part₂ = items.length)
    (hf₁ : part₁.length < f₁) (hf₂ : part₂.length < f₂) (ht : allList (HasType t) items = true) :
    decBlocks t f₁ (encBlocks t part₁ items ++ rest) = some (items, rest) ∧
    decBlocks t f₂ (encBlocks t part₂ items ++ rest) = some (items, rest) :=
  ⟨decBlocks_encBlocks t part₁ items f₁ rest h₁ hf₁ ht, decBlocks_encBlocks t part₂ items f₂ rest h₂ hf₂ ht⟩

/-- an empty batch handed to the writer is no item: written before, between or after the other batches it leaves the bytes of
    the stream unchanged (in particular it does not write the `0` that ends the stream) -/
theorem empty_batch_writes_nothing (t : Ty) (before after : List Nat) (items : List Val) :
    encBlocks t (before ++ 0 :: after) items = encBlocks t (before ++ after) items := by
  induction before generalizing items with
  | nil => simp [encBlocks]
  | cons n r ih =>
    simp only [List.cons_append, encBlocks]
    split
    · exact ih items
    · rw [ih]

/-- **a batch read does not depend on what the destination vector held before**: `ReadBlocksIntoVector` handed a vector with any previous
    contents (any length up to its capacity) delivers the items, and leaves the reader in the state, of a read into an empty vector -/
theorem batch_read_ignores_previous_contents (s : BS) (cap : Nat) (dest : List Val) (hwf : s.Wf) (he : s.sawEnd = false) (hcap : 0 < cap)
    (hd : dest.length ≤ cap) : s.readBatchInto cap dest = s.readBatch cap :=
  BS.readBatchInto_eq s cap dest hwf he hcap hd

/-- the hypotheses are met by a reader at the start of a stream of two blocks, and the destination really is overwritten -/
example : (BS.init [2, 1] [.int 1, .int 2, .int 3]).Wf ∧
    ((BS.init [2, 1] [.int 1, .int 2, .int 3]).readBatchInto 2 [.int 9]).1.length = 2 ∧
    ((BS.init [2, 1] [.int 1, .int 2, .int 3]).readBatchInto 3 [.int 9, .int 9, .int 9]).1.length = 3 := by
  refine ⟨⟨by decide, by decide, by intro h; cases h⟩, by decide, by decide⟩

theorem any_read_schedule_is_a_prefix (ops : List BS.Op) (part : List Nat) (items : List Val)
    (hp : BS.partSum' part = items.length) (hpos : ∀ n ∈ part, 0 < n) (hok : BS.opsOk ops) :
    (BS.runOps ops (BS.init part items) []).1 ++ (BS.runOps ops (BS.init part items) []).2.items = items := by
  have hwf : (BS.init part items).Wf :=
    ⟨by simp [BS.init, hp], by simpa [BS.init] using hpos, by simp [BS.init]⟩
  simpa [BS.init] using (BS.runOps_prefix ops (BS.init part items) [] hwf hok).1

theorem any_read_schedule_delivers_all (ops : List BS.Op) (part : List Nat) (items : List Val)
    (hp : BS.partSum' part = items.length) (hpos : ∀ n ∈ part, 0 < n) (hok : BS.opsOk ops)
    (hend : (BS.runOps ops (BS.init part items) []).2.sawEnd = true) :
    (BS.runOps ops (BS.init part items) []).1 = items :=
  BS.runOps_complete ops part items hp hpos hok hend

/-! Non-vacuity: 5 items written as blocks 2+3, read as batch(2), single, batch(4), single. -/
def exItems : List Val := [.int 1, .int 2, .int 3, .int 4, .int 5]
def exOps : List BS.Op := [.batch 2, .single, .batch 4, .single]
example : BS.opsOk exOps := by simp [exOps, BS.opsOk]
example : (BS.runOps exOps (BS.init [2, 3] exItems) []).2.sawEnd = true := by decide
example : BS.partSum' [2, 3] = exItems.length := by decide

end Yardl.C17
