import YardlProofs.Topo
import YardlGenerated.Pipeline
import Props.C11

/-!
# C10 — The front end is total: any input gives success or located diagnostics

What a theorem can carry here is the *logic* that keeps the passes from running away; that the Go
process neither panics, hangs nor exhausts memory on arbitrary bytes is decided by the fuzz run of
`checks/c10.py` (time- and memory-limited), not by a theorem.

Proved here:
* `dependency_sort_total` — the dependency sort (`Topo.sort` = topologicalSortTypes) answers for
  every dependency relation and every written order (no fuel-independent divergence: it is a total
  function and fuel only bounds the path length).
* `accepted_has_decreasing_rank` — once a namespace is accepted there is a rank on its definitions
  that strictly decreases along every reference, *including references made inside the type
  arguments of imported generics*: every later pass or generator that recurses along references
  terminates, its depth bounded by the number of definitions. (The C10 seed drops exactly those
  references from the relation: the cycle then escapes detection and generation recurses forever.)
* `reference_cycle_never_accepted` — restated from the sort's soundness.
* `passes_after_resolution_are_guarded` — over the pass list regenerated from the current source:
  every pass that runs after `resolveTypes` either returns at once when errors were reported or is
  on the reviewed list of passes that tolerate unresolved references (they test
  `ResolvedDefinition != nil` or do not touch it).
* `tolerant_passes_are_as_reviewed` — the bodies of those reviewed passes are the ones that were reviewed (hashes
  regenerated from the current source).
* `validation_errors_reach_the_exit_status` — from C11: the error of validation is returned by
  `validatePackage` to `validateImpl` / `generateImpl`, which turn it into exit status 1.
-/

namespace Yardl.C10
open Yardl.Topo Yardl.Generated

theorem dependency_sort_total (deps : Deps) (fuel : Nat) (written : List Nat) :
    ∃ r, sort deps fuel written = r := ⟨_, rfl⟩

theorem accepted_has_decreasing_rank (deps : Deps) (fuel : Nat) (written order : List Nat)
    (h : sort deps fuel written = some order) :
    ∃ rank : Nat → Nat, (∀ n ∈ order, rank n < order.length) ∧
      ∀ n ∈ order, ∀ m ∈ deps n, m ∈ order ∧ rank m < rank n := by
  refine ⟨fun n => order.idxOf n, ?_, ?_⟩
  · intro n hn; exact List.idxOf_lt_length_iff.mpr hn
  · intro n hn m hm
    exact sorted_dep_lt deps order (sort_sorted deps fuel written order h).1 n m hn hm

theorem reference_cycle_never_accepted (deps : Deps) (fuel : Nat) (written : List Nat) (n : Nat) (hn : n ∈ written)
    (hc : Path deps n n) : sort deps fuel written = none :=
  cycle_is_rejected deps fuel written n hn hc

/-- the passes that run after resolution without the early return, each reviewed at the body this hash identifies:
    `assignUnionCaseTags` only prints case types (TypeToShortSyntax, syntactic); `topologicalSortTypes` is the cycle
    detector itself (predecessor map); `validateEnums` follows the base type (GetUnderlyingType) only when no earlier
    pass reported an error (`typesAreSound`, fix 9cef2f0 — before it, an alias cycle under an enum base overflowed the
    stack, and this list wrongly called the pass tolerant). A change of one of these bodies breaks the obligation
    below until the pass is reviewed again. -/
def tolerantReviewed : List (String × String) :=
  [("assignUnionCaseTags", "a17a1d837ff2"), ("topologicalSortTypes", "79009e29d465"), ("validateEnums", "29bf543bb7ea")]

def tolerantPasses : List String := tolerantReviewed.map (·.1)

def afterResolution : List String := validationPasses.drop (validationPasses.idxOf "resolveTypes" + 1)

theorem passes_after_resolution_are_guarded :
    "resolveTypes" ∈ validationPasses ∧
    ∀ p ∈ afterResolution, p ∈ passesSkippedAfterErrors ∨ p ∈ tolerantPasses := by
  decide +kernel

theorem tolerant_passes_are_as_reviewed : ∀ p ∈ tolerantReviewed, p ∈ passBodyHash := by
  decide +kernel

theorem validation_errors_reach_the_exit_status :
    (∀ r ∈ calls_validatePackage, r.2.1 = "returned") ∧ "validatePackage" ∈ calls_validateImpl.map (·.1) :=
  ⟨C11.nested_errors_propagate.1, C11.validate_command_uses_validatePackage⟩

end Yardl.C10
