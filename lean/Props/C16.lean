import YardlProofs.WirePrefix
import YardlProofs.StreamsR
import YardlProofs.PyStreamR
import YardlProofs.PyStreamSeq
import YardlProofs.CppStreamSeq

/-!
# C16 — A truncated stream is reported, never mistaken for a complete one

Specification level: no proper prefix of a valid value / protocol body decodes (the format is
self-delimiting), so a cut can never look complete.

Implementation level (model of the C++ `CodedInputStream` *after* the `fix:` commit def9fde):
for every capacity ≥ 10 and every position of the cut relative to the buffer refills, a primitive
read that runs out of bytes raises end-of-stream — it never returns a value (`ok`) and never reads
outside the valid buffer window (`bad`) — and `VerifyFinished` succeeds iff nothing is left.
Before that commit the model had `fill` in place of `fillOrThrow`; the witnesses found then
(cut at a multiple of the capacity; `0x80` + EOF decoding as 128) are kept in
`corpus/C16/` and are replayed on the real generated C++ by `checks/c16.py`.

Implementation level, Python (`YardlModel/PyStream.lean`, the `CodedInputStream` of `_binary.py`): for every
buffer size and every split of the bytes between buffer and underlying stream, `read_byte`, `read(struct)`,
`read_unsigned_varint`, `read_view` / `read_bytearray` (buffered, refilled, and the larger-than-buffer path)
return exactly the next bytes of the stream, and a read that needs more bytes than the stream holds raises
(`py_reader_*_cut`): `EOFError`, or the `BufferError` of the off-by-one slice in `_fill_buffer`, which
`py_buffer_error_only_when_truncated` shows cannot occur while the stream still holds the bytes asked for.
-/

namespace Yardl.C16

theorem value_prefix_never_decodes (t : Ty) (v : Val) (q more : Bytes) (ht : HasType t v = true)
    (hq : q ++ more = enc t v) (hm : more ≠ []) : dec t q = none :=
  dec_proper_prefix t v q more ht hq hm

theorem body_prefix_never_decodes (p : Proto) (parts : List (List Nat)) (vals : List StepVal)
    (fuel : Nat) (q more : Bytes) (ht : hasStepVals p vals = true) (hp : partsOk p parts vals fuel)
    (hq : q ++ more = encSteps p parts vals) (hm : more ≠ []) : decSteps p fuel q = none :=
  decSteps_proper_prefix p parts vals fuel q more ht hp hq hm

/-- reading a stream of a **previous version**: the compatibility code decodes every field of the old type (the removed ones into
    temporaries) and then converts / drops — whatever the second stage does, a cut inside the old value is an error, because the first
    stage already fails (this is what a reader that *skips* a removed field without reading it would lose) -/
theorem old_version_prefix_never_decodes {α : Type} (told : Ty) (v : Val) (q more : Bytes) (convert : Val → Option α)
    (ht : HasType told v = true) (hq : q ++ more = enc told v) (hm : more ≠ []) :
    ((dec told q).bind fun r => (convert r.1).map fun x => (x, r.2)) = none := by
  rw [value_prefix_never_decodes told v q more ht hq hm]; rfl

/-- Values delivered before the cut are the values written: decoding only depends on the bytes
    consumed, so whatever a reader decoded from a prefix it also decodes from the full stream. -/
theorem delivered_values_are_written (t : Ty) (q more : Bytes) (v : Val) (r : Bytes)
    (h : dec t q = some (v, r)) : dec t (q ++ more) = some (v, r ++ more) :=
  dec_append t q more v r h

theorem reader_byte_cut (s : CIS) (hinv : s.Inv) (hp : s.pending = []) : s.readByte = .eos :=
  CIS.readByte_trunc s hinv hp

theorem reader_var64_cut (s : CIS) (hc : 10 ≤ s.cap) (hinv : s.Inv) (n : Nat) (more : Bytes)
    (hn : n < 2 ^ 64) (hp : s.pending ++ more = encVar n) (hm : more ≠ []) : s.readVar64 = .eos :=
  CIS.readVar64_trunc s hc hinv n more hn hp hm

theorem reader_var32_cut (s : CIS) (hc : 10 ≤ s.cap) (hinv : s.Inv) (n : Nat) (more : Bytes)
    (hn : n < 2 ^ 32) (hp : s.pending ++ more = encVar n) (hm : more ≠ []) : s.readVar32 = .eos :=
  CIS.readVar32_trunc s hc hinv n more hn hp hm

theorem reader_bytes_cut (s : CIS) (hc : 0 < s.cap) (hinv : s.Inv) (n : Nat)
    (h : s.pending.length < n) : s.readBytes n = .eos :=
  CIS.readBytes_trunc s hc hinv n h

theorem verify_finished_iff (s : CIS) (hc : 0 < s.cap) (hinv : s.Inv) :
    (s.pending = [] → ∃ s', s.verifyFinished = .ok () s') ∧
    (s.pending ≠ [] → s.verifyFinished = .notFinished) :=
  ⟨CIS.verifyFinished_ok s hc hinv, CIS.verifyFinished_leftover s hc hinv⟩

/-- **A truncated stream ends in `EndOfStreamException` in the C++ input stream** — over whole read sequences: whatever
    strict prefix of the written data the stream holds (cut between two items or inside one), for every capacity ≥ 10 and
    every split of that prefix between window and underlying stream. -/
theorem cpp_reader_truncated_sequence_is_eos (items : List CItem) (s : CIS) (hc : 10 ≤ s.cap) (hinv : s.Inv)
    (hi : ∀ i ∈ items, i.ok) (more : Bytes) (hm : more ≠ []) (hp : s.pending ++ more = encCItems items) :
    s.readItems items = .eos :=
  CIS.readItems_cut items s hc hinv hi more hm hp

/-- non-vacuity: 300 as a varint cut after its first byte, behind a complete byte -/
example : (⟨10, [7, 0xac], false, []⟩ : CIS).pending ++ [0x02] = encCItems [.byte 7, .var64 300] := by
  simp [CIS.pending, encCItems, CItem.enc, encVar]

/-! ### the Python reader -/

theorem py_reader_byte (s : PIS) (hc : 0 < s.cap) (hinv : s.Inv) (b : UInt8) (rest : Bytes) (hp : s.pending = b :: rest) :
    ∃ s', s.readByte = .ok b s' ∧ s'.pending = rest ∧ s'.Inv ∧ s'.cap = s.cap :=
  PIS.readByte_ok s hc hinv b rest hp

theorem py_reader_fixed (s : PIS) (w : Nat) (hc : w ≤ s.cap) (hinv : s.Inv) (bs rest : Bytes) (hl : bs.length = w)
    (hp : s.pending = bs ++ rest) :
    ∃ s', s.readFixed w = .ok (CIS.leVal bs) s' ∧ s'.pending = rest ∧ s'.Inv ∧ s'.cap = s.cap :=
  PIS.readFixed_ok s w hc hinv bs rest hl hp

theorem py_reader_varint (s : PIS) (hc : 0 < s.cap) (hinv : s.Inv) (n : Nat) (rest : Bytes) (hp : s.pending = encVar n ++ rest) :
    ∃ s', s.readVar = .ok n s' ∧ s'.pending = rest ∧ s'.Inv ∧ s'.cap = s.cap :=
  PIS.readVar_ok s hc hinv n rest hp

/-- byte runs of any length, also longer than the buffer -/
theorem py_reader_bytes (s : PIS) (hinv : s.Inv) (bs rest : Bytes) (hp : s.pending = bs ++ rest) :
    ∃ s', s.readBytes bs.length = .ok bs s' ∧ s'.pending = rest ∧ s'.Inv ∧ s'.cap = s.cap :=
  PIS.readBytes_ok s hinv bs rest hp

theorem py_reader_byte_cut (s : PIS) (hp : s.pending = []) : s.readByte.isError = true :=
  PIS.readByte_trunc s hp

theorem py_reader_fixed_cut (s : PIS) (w : Nat) (hp : s.pending.length < w) : (s.readFixed w).isError = true :=
  PIS.readFixed_trunc s w hp

theorem py_reader_varint_cut (s : PIS) (hc : 0 < s.cap) (hinv : s.Inv) (n : Nat) (more : Bytes)
    (hp : s.pending ++ more = encVar n) (hm : more ≠ []) : s.readVar.isError = true :=
  PIS.readVar_trunc s hc hinv n more hp hm

theorem py_reader_bytes_cut (s : PIS) (n : Nat) (hp : s.pending.length < n) : (s.readBytes n).isError = true :=
  PIS.readBytes_trunc s n hp

/-- **A truncated stream is never read successfully by the Python input stream** — over whole read sequences: whatever
    strict prefix of the written data the stream holds (cut between two items or inside one, varints included), for every
    buffer size and every split of that prefix between buffer and underlying stream, the reader that issues the matching
    reads ends in an error (`EOFError`, or the `BufferError` of `_fill_buffer`), never in values. -/
theorem py_reader_truncated_sequence_is_an_error (items : List RItem) (s : PIS) (hc : 0 < s.cap) (hinv : s.Inv)
    (hf : ∀ i ∈ items, i.fits s.cap) (more : Bytes) (hm : more ≠ []) (hp : s.pending ++ more = encItems items) :
    (s.readItems items).isError = true :=
  PIS.readItems_cut items s hc hinv hf more hm hp

/-- non-vacuity: a varint, a 4-byte number and a run, cut inside the run, in a 4-byte buffer -/
example : (PIS.init 4 [0xac, 0x02, 1, 0, 0, 0, 9, 9]).pending ++ [9] = encItems [.var 300, .fixed [1, 0, 0, 0], .bytes [9, 9, 9]] := by
  simp [PIS.init, PIS.pending, encItems, RItem.enc, encVar]

/-- the resize quirk of `_fill_buffer` never fires while the stream still holds what is asked for -/
theorem py_buffer_error_only_when_truncated (s : PIS) (n : Nat) (hc : n ≤ s.cap) (hinv : s.Inv) (hn : n ≤ s.pending.length) :
    ∃ s1, s.ensure n = .ok () s1 := by
  obtain ⟨s1, h, _⟩ := PIS.ensure_ok s n hc hinv hn
  exact ⟨s1, h⟩

/-- and it does fire on a truncated stream: 3 bytes in a 4-byte buffer, one consumed, then 4 more wanted -/
example : (match (PIS.init 4 [1, 2, 3]).readByte with
    | .ok _ s => (match s.readFixed 4 with | .bufferError => true | _ => false)
    | _ => false) = true := by decide

example : (PIS.init 4 [1, 2, 3]).Inv := PIS.init_inv 4 [1, 2, 3]

/-! Non-vacuity: the two situations the unfixed reader got wrong, at capacity 10. -/
-- cut exactly at a refill boundary: window consumed, underlying stream empty, eof not yet seen
example : (⟨10, [], false, []⟩ : CIS).Inv ∧ (⟨10, [], false, []⟩ : CIS).pending = [] := by
  simp [CIS.Inv, CIS.pending]
-- a varint (300 = ac 02) cut after its first byte
example : (⟨10, [0xac], false, []⟩ : CIS).pending ++ [0x02] = encVar 300 := by
  simp [CIS.pending, encVar]

end Yardl.C16
