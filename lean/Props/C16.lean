import YardlProofs.WirePrefix
import YardlProofs.StreamsR

/-!
# C16 — A truncated stream is reported, never mistaken for a complete one

Specification level: no proper prefix of a valid value / protocol body decodes (the format is
self-delimiting), so a cut can never look complete.

Implementation level (model of the C++ `CodedInputStream` *after* the `fix:` commit def9fde):
for every capacity ≥ 10 and every position of the cut relative to the buffer refills, a primitive
read that runs out of bytes raises end-of-stream — it never returns a value (`ok`) and never reads
outside the valid buffer window (`bad`) — and `VerifyFinished` succeeds iff nothing is left.
Before that commit the model had `fill` in place of `fillOrThrow`; the witnesses found then
(cut at a multiple of the capacity; `0x80` + EOF decoding as 128) are kept in
`corpus/C16/` and are replayed on the real generated C++ by `checks/c16.py`.
-/

namespace Yardl.C16

theorem value_prefix_never_decodes (t : Ty) (v : Val) (q more : Bytes) (ht : HasType t v = true)
    (hq : q ++ more = enc t v) (hm : more ≠ []) : dec t q = none :=
  dec_proper_prefix t v q more ht hq hm

theorem body_prefix_never_decodes (p : Proto) (parts : List (List Nat)) (vals : List StepVal)
    (fuel : Nat) (q more : Bytes) (ht : hasStepVals p vals = true) (hp : partsOk p parts vals fuel)
    (hq : q ++ more = encSteps p parts vals) (hm : more ≠ []) : decSteps p fuel q = none :=
  decSteps_proper_prefix p parts vals fuel q more ht hp hq hm

/-- Values delivered before the cut are the values written: decoding only depends on the bytes
    consumed, so whatever a reader decoded from a prefix it also decodes from the full stream. -/
theorem delivered_values_are_written (t : Ty) (q more : Bytes) (v : Val) (r : Bytes)
    (h : dec t q = some (v, r)) : dec t (q ++ more) = some (v, r ++ more) :=
  dec_append t q more v r h

theorem reader_byte_cut (s : CIS) (hinv : s.Inv) (hp : s.pending = []) : s.readByte = .eos :=
  CIS.readByte_trunc s hinv hp

theorem reader_var64_cut (s : CIS) (hc : 10 ≤ s.cap) (hinv : s.Inv) (n : Nat) (more : Bytes)
    (hn : n < 2 ^ 64) (hp : s.pending ++ more = encVar n) (hm : more ≠ []) : s.readVar64 = .eos :=
  CIS.readVar64_trunc s hc hinv n more hn hp hm

theorem reader_var32_cut (s : CIS) (hc : 10 ≤ s.cap) (hinv : s.Inv) (n : Nat) (more : Bytes)
    (hn : n < 2 ^ 32) (hp : s.pending ++ more = encVar n) (hm : more ≠ []) : s.readVar32 = .eos :=
  CIS.readVar32_trunc s hc hinv n more hn hp hm

theorem reader_bytes_cut (s : CIS) (hc : 0 < s.cap) (hinv : s.Inv) (n : Nat)
    (h : s.pending.length < n) : s.readBytes n = .eos :=
  CIS.readBytes_trunc s hc hinv n h

theorem verify_finished_iff (s : CIS) (hc : 0 < s.cap) (hinv : s.Inv) :
    (s.pending = [] → ∃ s', s.verifyFinished = .ok () s') ∧
    (s.pending ≠ [] → s.verifyFinished = .notFinished) :=
  ⟨CIS.verifyFinished_ok s hc hinv, CIS.verifyFinished_leftover s hc hinv⟩

/-! Non-vacuity: the two situations the unfixed reader got wrong, at capacity 10. -/
-- cut exactly at a refill boundary: window consumed, underlying stream empty, eof not yet seen
example : (⟨10, [], false, []⟩ : CIS).Inv ∧ (⟨10, [], false, []⟩ : CIS).pending = [] := by
  simp [CIS.Inv, CIS.pending]
-- a varint (300 = ac 02) cut after its first byte
example : (⟨10, [0xac], false, []⟩ : CIS).pending ++ [0x02] = encVar 300 := by
  simp [CIS.pending, encVar]

end Yardl.C16
