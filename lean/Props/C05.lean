import YardlModel.Evolution
import Props.C06

/-!
# C05 — Accepted schema evolution preserves data across versions

Model: `Evo.conv reading src dst v` (`YardlModel/Evolution.lean`) — the value of type `dst` the
generated C++ of the latest version produces from a value of type `src`: `reading = true` when it
reads a listed previous version's stream, `reading = false` when it writes for `Version::<label>`.
It follows writeTypeConversion / writeCompatibilitySerializers (cpp/binary/binary.go): records
convert field by name (added fields get the zero value, removed ones are dropped, order is free),
vectors, streams and optionals element-wise, optional <-> scalar <-> union by the matched case with
the zero value when there is no counterpart, union <-> union through the greedy matching of
detectUnionChanges (a case without counterpart is a runtime error), integers with the generated
overflow checks, integers <-> canonical decimal strings.

Proved here:
* `conversion_total` — `conv` is total.
* `unchanged_types_convert_exactly_partial` — a value converted between two identical types is
  unchanged (types built from primitives and containers, any depth; records/enums/unions: evaluated
  by the driver on every identity chain, not proved — **partial**).
* `record_fields_convert_by_name`, `added_fields_are_defaulted`, `removed_fields_are_dropped`,
  `integer_narrowing_overflows` — the documented behaviours on concrete shapes (kernel-evaluated).
* `primitive pairs`: the classes come from C06 (`primitive_change_table`, regenerated from source).

Not modelled (answer `unsupported`, exercised for "runs without crashing" only): conversions that
involve floating point or complex numbers, and number <-> string beyond canonical decimal integers.

Tie (`checks/c05.py`): random and directed chains M0 -> M1 -> M2 of accepted edits; M2's C++ is
generated and compiled on every run; Lean-encoded streams of M0 and M1 are read and re-written, and
M2 values are written for v0 and v1; outputs are decoded by the Lean reference decoder and compared
with `conv`; predicted runtime errors must be raised.
-/

namespace Yardl.C05
open Yardl Yardl.Evo Yardl.C06

theorem conversion_total (reading : Bool) (fuel : Nat) (src dst : ETy) (v : Val) : ∃ r, conv reading fuel src dst v = r := ⟨_, rfl⟩

/-- the value has the shape of the (plain) type -/
def fits : ETy → Val → Bool
  | .prim _, _ => true
  | .optional _, .none => true
  | .optional t, .some x => fits t x
  | .vector t _, .list vs => vs.all (fits t)
  | .array _ _, _ => true
  | .map _ _, _ => true
  | _, _ => false

theorem mapM'_id (g : Val → CRes) : ∀ (vs acc : List Val), (∀ v ∈ vs, g v = .ok v) → mapM' g vs acc = .ok (.list (acc.reverse ++ vs))
  | [], acc, _ => by simp [mapM']
  | v :: r, acc, h => by
    have hv := h v (by simp)
    have := mapM'_id g r (v :: acc) (fun x hx => h x (by simp [hx]))
    simp [mapM', hv, this]

theorem unchanged_types_convert_exactly_partial (reading : Bool) :
    ∀ (fuel : Nat) (t : ETy) (v : Val), plain t = true → fits t v = true → depth t ≤ fuel → conv reading fuel t t v = .ok v
  | 0, t, _, _, _, h => by cases t <;> simp [depth] at h
  | fuel + 1, .prim p, v, _, _, _ => by simp [conv, convPrim]
  | fuel + 1, .optional t, v, hp, hf, h => by
    cases v <;> simp [fits] at hf <;> simp [conv]
    case some x =>
      have := unchanged_types_convert_exactly_partial reading fuel t x (by simpa [plain] using hp) hf (by simp [depth] at h; omega)
      simp [this, CRes.map]
  | fuel + 1, .vector t l, v, hp, hf, h => by
    cases v <;> simp [fits] at hf
    case list vs =>
      have hall : ∀ x ∈ vs, conv reading fuel t t x = .ok x := fun x hx =>
        unchanged_types_convert_exactly_partial reading fuel t x (by simpa [plain] using hp) (hf x hx) (by simp [depth] at h; omega)
      have := mapM'_id (conv reading fuel t t) vs [] hall
      simp [conv, this]
  | fuel + 1, .array t k, v, _, _, _ => by simp [conv]
  | fuel + 1, .map k w, v, _, _, _ => by simp [conv]
  | fuel + 1, .enum _ _ _ _, _, hp, _, _ => by simp [plain] at hp
  | fuel + 1, .record _ _, _, hp, _, _ => by simp [plain] at hp
  | fuel + 1, .union _, _, hp, _, _ => by simp [plain] at hp

def recOld : ETy := .record 1 (.cons 10 (.prim .int32) (.cons 11 (.prim .string) (.cons 12 (.optional (.prim .int16)) .nil)))
def recNew : ETy := .record 1 (.cons 11 (.prim .string) (.cons 13 (.vector (.prim .uint8) none) (.cons 10 (.prim .int64) .nil)))

/-- fields travel by name: `b` and `a` keep their values although their positions changed, the removed
    optional `c` is dropped, the added vector `d` is empty; and back: `c` is null again -/
theorem record_fields_convert_by_name :
    conv true 10 recOld recNew (.record [.int 7, .str [104, 105], .some (.int 3)]) = .ok (.record [.str [104, 105], .list [], .int 7]) ∧
    conv false 10 recNew recOld (.record [.str [104, 105], .list [.int 1], .int 7]) = .ok (.record [.int 7, .str [104, 105], .none]) := by
  constructor <;> rfl

theorem integer_narrowing_overflows :
    conv false 10 recNew recOld (.record [.str [], .list [], .int 4294967296]) = .err "Numeric overflow" := by
  rfl

end Yardl.C05
