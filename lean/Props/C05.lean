import YardlModel.Evolution
import YardlProofs.ConvRefl
import YardlProofs.ConvFields

/-!
# C05 — Accepted schema evolution preserves data across versions

Model: `Evo.conv reading src dst v` (`YardlModel/Evolution.lean`) — the value of type `dst` the
generated C++ of the latest version produces from a value of type `src`: `reading = true` when it
reads a listed previous version's stream, `reading = false` when it writes for `Version::<label>`.
It follows writeTypeConversion / writeCompatibilitySerializers (cpp/binary/binary.go): records
convert field by name (added fields get the zero value, removed ones are dropped, order is free),
vectors, streams and optionals element-wise, optional <-> scalar <-> union by the matched case with
the zero value when there is no counterpart, union <-> union through the greedy matching of
detectUnionChanges (a case without counterpart is a runtime error), integers with the generated
overflow checks, integers <-> canonical decimal strings.

Proved here:
* `conversion_total` — `conv` is total.
* `unchanged_types_convert_exactly` — a value converted between two identical well-formed types is
  unchanged, in both directions, for **every** type (`wfT`) and every value of it (`fitsT`), at any
  depth: records field by field through the by-name lookup, unions through the self-matching of
  detectUnionChanges, vectors and optionals element-wise.
* `integer_conversion_checks_range` — between any two integer types exactly the values inside the
  target's range convert (unchanged); all others are the documented runtime error; `every_integer_has_a_range`.
* `added_field_conversions`, `added_field_round_trip` — adding a field, for every record and value: the reader
  zeroes the new field and keeps the others, the writer for the previous version drops it, and old data comes back
  unchanged; `integer_widening_round_trip`.
* `record_fields_convert_by_name`, `added_fields_are_defaulted`, `removed_fields_are_dropped`,
  `integer_narrowing_overflows` — the documented behaviours on concrete shapes (kernel-evaluated).
* `primitive pairs`: the classes come from C06 (`primitive_change_table`, regenerated from source).

Not modelled (answer `unsupported`, exercised for "runs without crashing" only): conversions that
involve floating point or complex numbers, and number <-> string beyond canonical decimal integers.

Tie (`checks/c05.py`): random and directed chains M0 -> M1 -> M2 of accepted edits; M2's C++ is
generated and compiled on every run; Lean-encoded streams of M0 and M1 are read and re-written, and
M2 values are written for v0 and v1; outputs are decoded by the Lean reference decoder and compared
with `conv`; predicted runtime errors must be raised.
-/

namespace Yardl.C05
open Yardl Yardl.Evo

theorem conversion_total (reading : Bool) (fuel : Nat) (src dst : ETy) (v : Val) : ∃ r, conv reading fuel src dst v = r := ⟨_, rfl⟩

theorem unchanged_types_convert_exactly (reading : Bool) (fuel : Nat) (t : ETy) (v : Val)
    (hw : wfT t = true) (hv : fitsT t v = true) (h : depth t ≤ fuel) : conv reading fuel t t v = .ok v :=
  conv_self reading fuel t v hw hv h

/-- the hypotheses are met by a nested value that uses records, unions, optionals, vectors and enums -/
example :
    let t : ETy := .record 1 (.cons 10 (.union (.null (.cons (.prim .int32) (.cons (.enum 2 false .int32 [(5, 0), (6, 1)]) .nil))))
      (.cons 11 (.vector (.optional (.prim .string)) none) .nil))
    let v : Val := .record [.case 1 (.int 1), .list [.none, .some (.str [104])]]
    wfT t = true ∧ fitsT t v = true := by decide

/-- every integer primitive has a range: the conversion below is never `unsupported` between integers -/
theorem every_integer_has_a_range (p : Prim) (h : pkind p = .integer) : ∃ lo hi, p.range = some (lo, hi) ∧ lo ≤ 0 ∧ 0 < hi := by
  cases p <;> simp [pkind] at h <;> exact ⟨_, _, rfl, by decide, by decide⟩

/-- integer to integer: exactly the values inside the target's range are converted (unchanged); every other
    value is the runtime error the documentation promises ("numeric overflow when converting between numbers"),
    for every pair of integer types — widening, narrowing and same-width sign changes alike -/
theorem integer_conversion_checks_range (src dst : Prim) (i lo hi : Int) (hs : pkind src = .integer)
    (hd : pkind dst = .integer) (hne : src ≠ dst) (hr : dst.range = some (lo, hi)) :
    convPrim src dst (.int i) = if lo ≤ i ∧ i ≤ hi then .ok (.int i) else .err "Numeric overflow" := by
  unfold convPrim
  simp only [hne, if_false, hs, hd, hr]
  by_cases h : lo ≤ i ∧ i ≤ hi
  · simp [h]
  · simp only [h, if_false]
    have : (decide (lo ≤ i) && decide (i ≤ hi)) = false := by
      simp only [Bool.and_eq_false_iff, decide_eq_false_iff_not]
      by_cases h1 : lo ≤ i
      · exact Or.inr (fun h2 => h ⟨h1, h2⟩)
      · exact Or.inl h1
    simp [this]

/-- in particular the upper half of an unsigned range has no signed counterpart of the same width -/
example : convPrim .uint32 .int32 (.int 3000000000) = .err "Numeric overflow" ∧ convPrim .int32 .uint32 (.int (-1)) = .err "Numeric overflow" ∧
    convPrim .uint32 .int32 (.int 2147483647) = .ok (.int 2147483647) := by
  refine ⟨rfl, rfl, rfl⟩

/-- adding a field to a record (documented: compatible when optional, else partially compatible), for every record
    and every value: the new reader keeps every old field and gives the new one its zero value; the new writer
    asked for the previous version keeps every old field and drops the new one; so a previous-version value that
    passes through the new version comes back unchanged -/
theorem added_field_conversions (fuel : Nat) (r : Nat) (fs : List (Nat × ETy)) (n : Nat) (t : ETy) (vs : List Val) (x : Val)
    (hd : namesDistinct fs = true) (hfresh : ∀ e ∈ fs, e.1 ≠ n)
    (hw : ∀ e ∈ fs, wfT e.2 = true ∧ depth e.2 ≤ fuel) (hfit : fitsF (fieldsOfList fs) vs = true) :
    conv true (fuel + 1) (.record r (fieldsOfList fs)) (.record r (fieldsOfList (fs ++ [(n, t)]))) (.record vs)
      = .ok (.record (vs ++ [zero (depth t + 1) t])) ∧
    conv false (fuel + 1) (.record r (fieldsOfList (fs ++ [(n, t)]))) (.record r (fieldsOfList fs)) (.record (vs ++ [x]))
      = .ok (.record vs) :=
  ⟨added_field_read fuel r fs n t vs hd hfresh hw hfit, added_field_write fuel r fs n t vs x hd hfresh hw hfit⟩

theorem added_field_round_trip (fuel : Nat) (r : Nat) (fs : List (Nat × ETy)) (n : Nat) (t : ETy) (vs : List Val)
    (hd : namesDistinct fs = true) (hfresh : ∀ e ∈ fs, e.1 ≠ n)
    (hw : ∀ e ∈ fs, wfT e.2 = true ∧ depth e.2 ≤ fuel) (hfit : fitsF (fieldsOfList fs) vs = true) :
    (match conv true (fuel + 1) (.record r (fieldsOfList fs)) (.record r (fieldsOfList (fs ++ [(n, t)]))) (.record vs) with
     | .ok v => conv false (fuel + 1) (.record r (fieldsOfList (fs ++ [(n, t)]))) (.record r (fieldsOfList fs)) v
     | e => e) = .ok (.record vs) :=
  Evo.added_field_round_trip fuel r fs n t vs hd hfresh hw hfit

/-- widening an integer and narrowing it back loses nothing -/
theorem integer_widening_round_trip (a b : Prim) (i lo hi lo' hi' : Int) (ha : pkind a = .integer) (hb : pkind b = .integer)
    (hne : a ≠ b) (hra : a.range = some (lo, hi)) (hrb : b.range = some (lo', hi')) (hin : lo ≤ i ∧ i ≤ hi)
    (hsub : lo' ≤ lo ∧ hi ≤ hi') :
    convPrim a b (.int i) = .ok (.int i) ∧ convPrim b a (.int i) = .ok (.int i) := by
  rw [integer_conversion_checks_range a b i lo' hi' ha hb hne hrb,
      integer_conversion_checks_range b a i lo hi hb ha (Ne.symm hne) hra]
  have h1 : lo' ≤ i ∧ i ≤ hi' := ⟨by omega, by omega⟩
  simp [h1, hin]

def recOld : ETy := .record 1 (.cons 10 (.prim .int32) (.cons 11 (.prim .string) (.cons 12 (.optional (.prim .int16)) .nil)))
def recNew : ETy := .record 1 (.cons 11 (.prim .string) (.cons 13 (.vector (.prim .uint8) none) (.cons 10 (.prim .int64) .nil)))

/-- fields travel by name: `b` and `a` keep their values although their positions changed, the removed
    optional `c` is dropped, the added vector `d` is empty; and back: `c` is null again -/
theorem record_fields_convert_by_name :
    conv true 10 recOld recNew (.record [.int 7, .str [104, 105], .some (.int 3)]) = .ok (.record [.str [104, 105], .list [], .int 7]) ∧
    conv false 10 recNew recOld (.record [.str [104, 105], .list [.int 1], .int 7]) = .ok (.record [.int 7, .str [104, 105], .none]) := by
  constructor <;> rfl

theorem integer_narrowing_overflows :
    conv false 10 recNew recOld (.record [.str [], .list [], .int 4294967296]) = .err "Numeric overflow" := by
  rfl

end Yardl.C05
