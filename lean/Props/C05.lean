import YardlModel.Evolution
import YardlProofs.ConvRefl
import YardlProofs.ConvFields
import YardlProofs.ConvClasses

/-!
# C05 — Accepted schema evolution preserves data across versions

Model: `Evo.conv reading src dst v` (`YardlModel/Evolution.lean`) — the value of type `dst` the
generated C++ of the latest version produces from a value of type `src`: `reading = true` when it
reads a listed previous version's stream, `reading = false` when it writes for `Version::<label>`.
It follows writeTypeConversion / writeCompatibilitySerializers (cpp/binary/binary.go): records
convert field by name (added fields get the zero value, removed ones are dropped, order is free),
vectors, streams and optionals element-wise, optional <-> scalar <-> union by the matched case with
the zero value when there is no counterpart, union <-> union through the greedy matching of
detectUnionChanges (a case without counterpart is a runtime error), integers with the generated
overflow checks, integers <-> canonical decimal strings.

Proved here:
* `conversion_total` — `conv` is total.
* `unchanged_types_convert_exactly` — a value converted between two identical well-formed types is
  unchanged, in both directions, for **every** type (`wfT`) and every value of it (`fitsT`), at any
  depth: records field by field through the by-name lookup, unions through the self-matching of
  detectUnionChanges, vectors and optionals element-wise.
* `integer_conversion_checks_range` — between any two integer types exactly the values inside the
  target's range convert (unchanged); all others are the documented runtime error; `every_integer_has_a_range`.
* `added_field_conversions`, `added_field_round_trip` — adding a field, for every record and value: the reader
  zeroes the new field and keeps the others, the writer for the previous version drops it, and old data comes back
  unchanged; `integer_widening_round_trip`.
* conversions between *different* types, for every well-formed simple type `T` (primitive, enum, record of any
  depth) and every value of it — the documented partially compatible classes:
  `made_optional_or_mandatory` (`T` ↔ `T?`: a value stays, null becomes the zero value of `T`) with
  `optional_round_trip`; `joined_or_left_a_union` (`T` ↔ a union listing `T` at any position: the value is held in
  `T`'s case; another case becomes the zero value) with `union_round_trip`; `optional_and_union_with_null`
  (`T?` ↔ `[null, T, …]`); `vectors_convert_element_by_element` (order and length kept; the first element that cannot
  be converted fails the whole read / write with that element's error).
* `record_fields_convert_by_name`, `added_fields_are_defaulted`, `removed_fields_are_dropped`,
  `integer_narrowing_overflows` — the documented behaviours on concrete shapes (kernel-evaluated).
* `primitive pairs`: the classes come from C06 (`primitive_change_table`, regenerated from source).

Not modelled (answer `unsupported`, exercised for "runs without crashing" only): conversions that
involve floating point or complex numbers, and number <-> string beyond canonical decimal integers.

Tie (`checks/c05.py`): random and directed chains M0 -> M1 -> M2 of accepted edits; M2's C++ is
generated and compiled on every run; Lean-encoded streams of M0 and M1 are read and re-written, and
M2 values are written for v0 and v1; outputs are decoded by the Lean reference decoder and compared
with `conv`; predicted runtime errors must be raised.
-/

namespace Yardl.C05
open Yardl Yardl.Evo

theorem conversion_total (reading : Bool) (fuel : Nat) (src dst : ETy) (v : Val) : ∃ r, conv reading fuel src dst v = r := ⟨_, rfl⟩

theorem unchanged_types_convert_exactly (reading : Bool) (fuel : Nat) (t : ETy) (v : Val)
    (hw : wfT t = true) (hv : fitsT t v = true) (h : depth t ≤ fuel) : conv reading fuel t t v = .ok v :=
  conv_self reading fuel t v hw hv h

/-- the hypotheses are met by a nested value that uses records, unions, optionals, vectors and enums -/
example :
    let t : ETy := .record 1 (.cons 10 (.union (.null (.cons (.prim .int32) (.cons (.enum 2 false .int32 [(5, 0), (6, 1)]) .nil))))
      (.cons 11 (.vector (.optional (.prim .string)) none) .nil))
    let v : Val := .record [.case 1 (.int 1), .list [.none, .some (.str [104])]]
    wfT t = true ∧ fitsT t v = true := by decide

/-- every integer primitive has a range: the conversion below is never `unsupported` between integers -/
theorem every_integer_has_a_range (p : Prim) (h : pkind p = .integer) : ∃ lo hi, p.range = some (lo, hi) ∧ lo ≤ 0 ∧ 0 < hi := by
  cases p <;> simp [pkind] at h <;> exact ⟨_, _, rfl, by decide, by decide⟩

/-- integer to integer: exactly the values inside the target's range are converted (unchanged); every other
    value is the runtime error the documentation promises ("numeric overflow when converting between numbers"),
    for every pair of integer types — widening, narrowing and same-width sign changes alike -/
theorem integer_conversion_checks_range (src dst : Prim) (i lo hi : Int) (hs : pkind src = .integer)
    (hd : pkind dst = .integer) (hne : src ≠ dst) (hr : dst.range = some (lo, hi)) :
    convPrim src dst (.int i) = if lo ≤ i ∧ i ≤ hi then .ok (.int i) else .err "Numeric overflow" := by
  unfold convPrim
  simp only [hne, if_false, hs, hd, hr]
  by_cases h : lo ≤ i ∧ i ≤ hi
  · simp [h]
  · simp only [h, if_false]
    have : (decide (lo ≤ i) && decide (i ≤ hi)) = false := by
      simp only [Bool.and_eq_false_iff, decide_eq_false_iff_not]
      by_cases h1 : lo ≤ i
      · exact Or.inr (fun h2 => h ⟨h1, h2⟩)
      · exact Or.inl h1
    simp [this]

/-- in particular the upper half of an unsigned range has no signed counterpart of the same width -/
example : convPrim .uint32 .int32 (.int 3000000000) = .err "Numeric overflow" ∧ convPrim .int32 .uint32 (.int (-1)) = .err "Numeric overflow" ∧
    convPrim .uint32 .int32 (.int 2147483647) = .ok (.int 2147483647) := by
  refine ⟨rfl, rfl, rfl⟩

/-- adding a field to a record (documented: compatible when optional, else partially compatible), for every record
    and every value: the new reader keeps every old field and gives the new one its zero value; the new writer
    asked for the previous version keeps every old field and drops the new one; so a previous-version value that
    passes through the new version comes back unchanged -/
theorem added_field_conversions (fuel : Nat) (r : Nat) (fs : List (Nat × ETy)) (n : Nat) (t : ETy) (vs : List Val) (x : Val)
    (hd : namesDistinct fs = true) (hfresh : ∀ e ∈ fs, e.1 ≠ n)
    (hw : ∀ e ∈ fs, wfT e.2 = true ∧ depth e.2 ≤ fuel) (hfit : fitsF (fieldsOfList fs) vs = true) :
    conv true (fuel + 1) (.record r (fieldsOfList fs)) (.record r (fieldsOfList (fs ++ [(n, t)]))) (.record vs)
      = .ok (.record (vs ++ [zero (depth t + 1) t])) ∧
    conv false (fuel + 1) (.record r (fieldsOfList (fs ++ [(n, t)]))) (.record r (fieldsOfList fs)) (.record (vs ++ [x]))
      = .ok (.record vs) :=
  ⟨added_field_read fuel r fs n t vs hd hfresh hw hfit, added_field_write fuel r fs n t vs x hd hfresh hw hfit⟩

theorem added_field_round_trip (fuel : Nat) (r : Nat) (fs : List (Nat × ETy)) (n : Nat) (t : ETy) (vs : List Val)
    (hd : namesDistinct fs = true) (hfresh : ∀ e ∈ fs, e.1 ≠ n)
    (hw : ∀ e ∈ fs, wfT e.2 = true ∧ depth e.2 ≤ fuel) (hfit : fitsF (fieldsOfList fs) vs = true) :
    (match conv true (fuel + 1) (.record r (fieldsOfList fs)) (.record r (fieldsOfList (fs ++ [(n, t)]))) (.record vs) with
     | .ok v => conv false (fuel + 1) (.record r (fieldsOfList (fs ++ [(n, t)]))) (.record r (fieldsOfList fs)) v
     | e => e) = .ok (.record vs) :=
  Evo.added_field_round_trip fuel r fs n t vs hd hfresh hw hfit

/-- widening an integer and narrowing it back loses nothing -/
theorem integer_widening_round_trip (a b : Prim) (i lo hi lo' hi' : Int) (ha : pkind a = .integer) (hb : pkind b = .integer)
    (hne : a ≠ b) (hra : a.range = some (lo, hi)) (hrb : b.range = some (lo', hi')) (hin : lo ≤ i ∧ i ≤ hi)
    (hsub : lo' ≤ lo ∧ hi ≤ hi') :
    convPrim a b (.int i) = .ok (.int i) ∧ convPrim b a (.int i) = .ok (.int i) := by
  rw [integer_conversion_checks_range a b i lo' hi' ha hb hne hrb,
      integer_conversion_checks_range b a i lo hi hb ha (Ne.symm hne) hra]
  have h1 : lo' ≤ i ∧ i ≤ hi' := ⟨by omega, by omega⟩
  simp [h1, hin]

/-! ### conversions between different types: the documented partially compatible classes -/

/-- a type made optional or mandatory (documented: partially compatible), for every well-formed simple type and
    every value, in both directions (reader of an old stream, writer for an old version): a value stays what
    it is, a missing value becomes the zero value of the type -/
theorem made_optional_or_mandatory (reading : Bool) (fuel : Nat) (t : ETy) (v : Val)
    (hs : isSimple t = true) (hw : wfT t = true) (hv : fitsT t v = true) (h : depth t ≤ fuel) :
    conv reading (fuel + 1) t (.optional t) v = .ok (.some v) ∧
    conv reading (fuel + 1) (.optional t) t (.some v) = .ok v ∧
    conv reading (fuel + 1) (.optional t) t .none = .ok (zero (depth t + 1) t) :=
  ⟨wrap_optional reading fuel t v hs hw hv h, unwrap_optional_some reading fuel t v hs hw hv h,
   unwrap_optional_none reading fuel t hs⟩

/-- old data of type `T` read by the version that made it optional and written back for the old version is unchanged -/
theorem optional_round_trip (fuel : Nat) (t : ETy) (v : Val)
    (hs : isSimple t = true) (hw : wfT t = true) (hv : fitsT t v = true) (h : depth t ≤ fuel) :
    (match conv true (fuel + 1) t (.optional t) v with
     | .ok w => conv false (fuel + 1) (.optional t) t w
     | e => e) = .ok v := by
  rw [wrap_optional true fuel t v hs hw hv h]
  exact unwrap_optional_some false fuel t v hs hw hv h

/-- the hypotheses are met by a record holding a vector and an enum -/
example :
    let t : ETy := .record 1 (.cons 10 (.vector (.prim .int32) none) (.cons 11 (.enum 2 false .int32 [(5, 0), (6, 1)]) .nil))
    isSimple t = true ∧ wfT t = true ∧ fitsT t (.record [.list [.int 1], .int 1]) = true := by decide

/-- a type that joins or leaves a union (documented: partially compatible): for every union that lists `T` at any
    position, provided no earlier case is compatible with `T` (the converters take the first compatible case):
    a `T` becomes the union's `T` case; the union's `T` case becomes the `T`, any other case the zero value of `T` -/
theorem joined_or_left_a_union (reading : Bool) (fuel : Nat) (t : ETy) (v : Val) (i : Nat) (cs : ECases) (pre post : List (Option ETy))
    (hs : isSimple t = true) (hw : wfT t = true) (hv : fitsT t v = true) (h : depth t ≤ fuel)
    (hcs : cs.toList = pre ++ some t :: post)
    (hpre : ∀ u, some u ∈ pre → (kcmp reading t u).matches = false ∧ (kcmp reading u t).matches = false) :
    conv reading (fuel + 1) t (.union cs) v = .ok (.case (ofFull cs.toList pre.length) v) ∧
    conv reading (fuel + 1) (.union cs) t (.case i v) =
      if toFull cs.toList i = pre.length then .ok v else .ok (zero (depth t + 1) t) := by
  refine ⟨wrap_union reading fuel t v cs pre post hs hw hv h hcs (fun u hu => (hpre u hu).1), ?_⟩
  rw [unwrap_union reading fuel t i v cs pre post hs hw h hcs (fun u hu => (hpre u hu).2)]
  simp [conv_self reading fuel t v hw hv h]

theorem union_round_trip (fuel : Nat) (t : ETy) (v : Val) (cs : ECases) (pre post : List (Option ETy))
    (hs : isSimple t = true) (hw : wfT t = true) (hv : fitsT t v = true) (h : depth t ≤ fuel)
    (hcs : cs.toList = pre ++ some t :: post)
    (hpre : ∀ u, some u ∈ pre → (kcmp true t u).matches = false)
    (hpre' : ∀ u, some u ∈ pre → (kcmp false u t).matches = false)
    (hnull : hasNullL cs.toList = true → pre ≠ []) :
    (match conv true (fuel + 1) t (.union cs) v with
     | .ok w => conv false (fuel + 1) (.union cs) t w
     | e => e) = .ok v :=
  Evo.union_round_trip fuel t v cs pre post hs hw hv h hcs hpre hpre' hnull

/-- the hypotheses are met: `string` joins `[null, int32, string]` — null and `int32` come first and neither is
    compatible with a string in the "matches" sense (int32 ↔ string is a *conversion*, not a match) -/
example :
    let t : ETy := .prim .string
    let cs : ECases := .null (.cons (.prim .int32) (.cons (.prim .string) .nil))
    cs.toList = [none, some (.prim .int32)] ++ some t :: [] ∧
    (∀ u, some u ∈ [none, some (ETy.prim .int32)] → (kcmp true t u).matches = false ∧ (kcmp false u t).matches = false) ∧
    conv true 2 t (.union cs) (.str [104]) = .ok (.case 1 (.str [104])) := by
  refine ⟨rfl, ?_, rfl⟩
  intro u hu
  simp at hu
  subst hu
  exact ⟨rfl, rfl⟩

/-- an optional that becomes a union with a null case, or the reverse (documented: partially compatible) -/
theorem optional_and_union_with_null (reading : Bool) (fuel : Nat) (t : ETy) (v : Val) (rest : ECases) (i : Nat)
    (hw : wfT t = true) (hv : fitsT t v = true) (h : depth t ≤ fuel) :
    conv reading (fuel + 1) (.optional t) (.union (.null (.cons t rest))) (.some v) = .ok (.case 0 v) ∧
    conv reading (fuel + 1) (.optional t) (.union (.null (.cons t rest))) .none = .ok .none ∧
    conv reading (fuel + 1) (.union (.null (.cons t rest))) (.optional t) (.case 0 v) = .ok (.some v) ∧
    conv reading (fuel + 1) (.union (.null (.cons t rest))) (.optional t) (.case (i + 1) v) = .ok .none ∧
    conv reading (fuel + 1) (.union (.null (.cons t rest))) (.optional t) .none = .ok .none :=
  ⟨(optional_to_union reading fuel t v rest hw hv h).1, (optional_to_union reading fuel t v rest hw hv h).2,
   (union_to_optional reading fuel t v rest i hw hv h).1, (union_to_optional reading fuel t v rest i hw hv h).2.1,
   (union_to_optional reading fuel t v rest i hw hv h).2.2⟩

/-- vectors (and streams, converted item by item) whose element type changed: element by element, order and length
    kept; the first element that cannot be converted fails the whole read / write with that element's error -/
theorem vectors_convert_element_by_element (reading : Bool) (fuel : Nat) (s d : ETy) (l l' : Option Nat) :
    (∀ (vs : List Val) (φ : Val → Val), (∀ v ∈ vs, conv reading fuel s d v = .ok (φ v)) →
      conv reading (fuel + 1) (.vector s l) (.vector d l') (.list vs) = .ok (.list (vs.map φ))) ∧
    (∀ (pre post : List Val) (x : Val) (m : String), (∀ v ∈ pre, ∃ w, conv reading fuel s d v = .ok w) →
      conv reading fuel s d x = .err m →
      conv reading (fuel + 1) (.vector s l) (.vector d l') (.list (pre ++ x :: post)) = .err m) :=
  ⟨fun vs φ h => vector_elementwise reading fuel s d l l' vs φ h,
   fun pre post x m h hx => vector_first_error reading fuel s d l l' pre post x m h hx⟩

def recOld : ETy := .record 1 (.cons 10 (.prim .int32) (.cons 11 (.prim .string) (.cons 12 (.optional (.prim .int16)) .nil)))
def recNew : ETy := .record 1 (.cons 11 (.prim .string) (.cons 13 (.vector (.prim .uint8) none) (.cons 10 (.prim .int64) .nil)))

/-- fields travel by name: `b` and `a` keep their values although their positions changed, the removed
    optional `c` is dropped, the added vector `d` is empty; and back: `c` is null again -/
theorem record_fields_convert_by_name :
    conv true 10 recOld recNew (.record [.int 7, .str [104, 105], .some (.int 3)]) = .ok (.record [.str [104, 105], .list [], .int 7]) ∧
    conv false 10 recNew recOld (.record [.str [104, 105], .list [.int 1], .int 7]) = .ok (.record [.int 7, .str [104, 105], .none]) := by
  constructor <;> rfl

theorem integer_narrowing_overflows :
    conv false 10 recNew recOld (.record [.str [], .list [], .int 4294967296]) = .err "Numeric overflow" := by
  rfl

end Yardl.C05
