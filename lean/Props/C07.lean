import YardlProofs.Proto
import YardlProofs.ProtoFail
import YardlProofs.ProtoMatlab

/-!
# C07 — Protocol step order is enforced by generated readers and writers

Four implementation machines (numeric `state_`/`_state`, transliterated from the generators)
against four specification machines with descriptive positions. For **every** protocol shape and
**every** finite sequence of API calls — with the data-dependent outcomes of reads (`got`, `more`)
as adversarial parameters — an implementation run is accepted iff the specification run is, and
they end in corresponding positions:

* `cpp_writer_iff`, `py_writer_iff`, `cpp_reader_iff`, `py_reader_iff`, `matlab_writer_iff`, `matlab_reader_iff` (the MATLAB machines are the
  ones denoted by the method tables `harness/py/matlabproto.py` reads out of the generated `.m` files, compared with `matWriterRows` / `matReaderRows`).

The specification machines are the readable statement of "steps in declaration order, non-stream
steps once, stream steps any number of times then ended/exhausted, close only at the end":
`close` is accepted exactly at position `p.length` (Python: also from inside a trailing stream, which
it ends), see `spec_close_*`.

The C++ state counters were `uint8_t` before 2a31fce and wrapped at 128 (reader) / 256 (writer)
steps; the models use unbounded naturals, matching `size_t` for every protocol that fits in memory.
`checks/c07.py` drives the generated C++ and Python base classes with scripted stubs (exhaustive short
call sequences for all small shapes, random long ones, a 130-step protocol) and compares the index of
the first rejected call with these machines.
-/

namespace Yardl.C07
open Yardl.Proto

/-- writers whose implementation of a step raises and that are used further (`YardlModel/ProtoFail.lean`): the C++ writer is where it was;
    the Python writer keeps a stream ended that the failed call ended implicitly — for every shape and every sequence of calls,
    failing ones anywhere -/
theorem cpp_writer_with_failing_writes_iff (p : Shape) (ops : List WOpF) :
    (runWSF (specWcppF p) ⟨0, false⟩ ops).map (·.k) = runWF (cppWF p) 0 ops :=
  cppWF_run p ops ⟨0, false⟩ rfl

theorem py_writer_with_failing_writes_iff (p : Shape) (ops : List WOpF) :
    (runWSF (specWpyF p) ⟨0, false⟩ ops).map encW = runWF (pyWF p) 0 ops := by
  have := pyWF_run p ops ⟨0, false⟩ (by intro h; simp at h)
  simpa [encW] using this

theorem failed_write_keeps_the_implicit_end (p : Shape) (s s' : WPos) (i : Nat) (hi : i = s.k + 1) (ho : s.openS = true)
    (h : specWpyF p s (.fail i) = some s') : s' = ⟨i, false⟩ ∧ specWpyF p s' (.op (.write s.k)) = none :=
  Yardl.Proto.failed_write_keeps_the_implicit_end p s s' i hi ho h

/-- the hypothesis is met: inside stream 0 of the shape [stream, value], the failing write of step 1 is accepted by the state check -/
example : specWpyF [true, false] ⟨0, true⟩ (.fail 1) = some ⟨1, false⟩ := by decide

theorem cpp_writer_iff (p : Shape) (ops : List WOp) :
    (runWS (specWcpp p) ⟨0, false⟩ ops).map (·.k) = runW (cppW p) 0 ops :=
  cppW_run p ops ⟨0, false⟩ rfl

theorem py_writer_iff (p : Shape) (ops : List WOp) :
    (runWS (specWpy p) ⟨0, false⟩ ops).map encW = runW (pyW p) 0 ops := by
  have := pyW_run p ops ⟨0, false⟩ (by intro h; simp at h)
  simpa [encW] using this

theorem cpp_reader_iff (p : Shape) (ops : List ROp) :
    (runRS (specRcpp p) ⟨0, false⟩ ops).map encR = runR (cppR p) 0 ops := by
  have := cppR_run p ops ⟨0, false⟩ (by intro h; simp at h)
  simpa [encR] using this

theorem py_reader_iff (p : Shape) (ops : List PROp) :
    (runPRS (specRpy p) ⟨0, false, false⟩ ops).map encPR = runPR (pyR p) (0, false) ops := by
  have := pyR_run p ops ⟨0, false, false⟩ ⟨by intro h; simp at h, by intro _; rfl⟩
  simpa [encPR] using this

/-- a stream whose iterable was dropped before its end is not finished: the reader stays at that step, so reading the next
    step (or the same one again) and closing are all rejected -/
theorem abandoned_stream_blocks_the_reader (p : Shape) (s : PRPos) (i : Nat) (s' : PRPos) (h : specRpy p s (.abandon i) = some s') :
    (∀ j, specRpy p s' (.read j) = none) ∧ (∀ j, specRpy p s' (.exhaust j) = none) ∧ specRpy p s' .close = none := by
  simp only [specRpy] at h
  split at h
  · cases h
    refine ⟨fun j => ?_, fun j => ?_, ?_⟩ <;> simp [specRpy]
  · cases h

/-- Closing a C++ writer succeeds only when every step has been completed. -/
theorem spec_close_cpp_writer (p : Shape) (s : WPos) : (specWcpp p s .close).isSome ↔ s.k = p.length := by
  simp only [specWcpp]; split <;> simp_all

/-- An out-of-order write raises: only the current step is writable (C++). -/
theorem spec_out_of_order_write_cpp (p : Shape) (s : WPos) (i : Nat) (h : i ≠ s.k) : specWcpp p s (.write i) = none := by
  simp [specWcpp, h]

/-- Closing a C++ reader succeeds only at the end (possibly observing a drained trailing stream). -/
theorem spec_close_cpp_reader (p : Shape) (s : RPos) :
    (specRcpp p s .close).isSome ↔ (s.k = p.length ∧ s.drained = false) ∨ (s.k + 1 = p.length ∧ s.drained = true) := by
  simp only [specRcpp]; split <;> (try split) <;> simp_all

theorem spec_close_py_reader (p : Shape) (s : PRPos) : (specRpy p s .close).isSome ↔ (s.k = p.length ∧ s.inS = false) := by
  simp only [specRpy]; split <;> simp_all

/-! Non-vacuity: int, stream, stream, int — an accepted run and a rejected one, in all four machines. -/
def ex : Shape := [false, true, true, false]
example : runW (cppW ex) 0 [.write 0, .write 1, .write 1, .endS 1, .endS 2, .write 3, .close] = some 4 := by decide
example : runW (cppW ex) 0 [.write 0, .write 2] = none := by decide
example : runW (pyW ex) 0 [.write 0, .write 1, .write 2, .write 3, .close] = some 8 := by decide
example : runW (pyW ex) 0 [.write 0, .write 2] = none := by decide          -- stream b never written
example : runR (cppR ex) 0 [.read 0 true, .batch 1 false, .read 2 true, .read 2 false, .read 3 true, .close] = some 8 := by decide
example : runR (cppR ex) 0 [.read 0 true, .read 1 true, .read 2 true] = none := by decide   -- end of b not observed
example : runPR (pyR ex) (0, false) [.read 0, .read 1, .exhaust 1, .read 2, .exhaust 2, .read 3, .close] = some (8, false) := by decide
example : runPR (pyR ex) (0, false) [.read 0, .read 1, .read 2] = none := by decide
example : runPR (pyR ex) (0, false) [.read 0, .read 1, .abandon 1, .read 2] = none := by decide
example : runPR (pyR ex) (0, false) [.read 0, .read 1, .abandon 1] = some (3, true) := by decide

/-! ### MATLAB (never executed here: tied by reading the method tables out of the generated `.m` files) -/

/-- the writer the table of a generated `<P>WriterBase.m` denotes accepts exactly the call sequences of the step-order specification (the C++
    discipline: explicit `end_<step>`), ending in the corresponding position — for every protocol shape and every call sequence -/
theorem matlab_writer_iff (p : Shape) (ops : List WOp) :
    (runWS (specWcpp p) ⟨0, false⟩ ops).map (·.k) = runW (matW (matWriterRows p)) 0 ops := by
  rw [runW_congr (matW (matWriterRows p)) (cppW p) (matW_eq_cppW p) ops 0]
  exact cpp_writer_iff p ops

/-- … and the reader table of `<P>ReaderBase.m` (`read_<step>`, `has_<step>` ending a stream when it answers false, `close`) is its specification -/
theorem matlab_reader_iff (p : Shape) (ops : List MROp) :
    runMR (matR (matReaderRows p)) 0 ops = runMR (specRmat p) 0 ops :=
  runMR_congr _ _ (matR_eq_spec p) ops 0

/-- the reader specification says what the property says: close only after the last step; a step out of order is refused -/
theorem spec_matlab_reader (p : Shape) (k i : Nat) (more : Bool) :
    ((specRmat p k .close).isSome ↔ k = p.length) ∧ (i ≠ k → specRmat p k (.read i) = none ∧ specRmat p k (.has i more) = none) := by
  refine ⟨by simp [specRmat], fun h => ⟨by simp [specRmat, h], by simp [specRmat, h]⟩⟩

example : runMR (matR (matReaderRows [false, true, false])) 0 [.read 0, .has 1 true, .read 1, .has 1 false, .read 2, .close] = some 3 := by decide
example : runMR (matR (matReaderRows [false, true, false])) 0 [.read 0, .read 2] = none := by decide


end Yardl.C07
