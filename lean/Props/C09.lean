import YardlProofs.Rules
import YardlModel.TypeRules
import YardlGenerated.Pipeline
import Props.C11
import YardlProofs.Topo

/-!
# C09 — The language rules are enforced wherever a violation occurs

Proved here:
* `violation_anywhere_rejects` / `accepted_means_every_node_ok` — in the model of a validation pass that
  applies a rule to every node the traversal reaches (`Rules.validType`), a node that breaks the rule
  makes the whole type rejected **wherever** it occurs: directly, inside generic arguments, optionals,
  union cases, vectors, arrays, map keys or values, at any depth; for every rule.
* `visitor_reaches_every_child` — over facts regenerated from the current source (go/types + go/ast):
  every field of every `dsl` node struct that can hold child nodes is walked by `VisitChildren`,
  except the derived back-references listed here (`Resolved*`, `Namespace.References`, the instantiated
  `DefinitionMeta.TypeArguments` / `TypeParameters`). (Before fix 4cc805c `SubscriptArgument` had no
  case at all: its diagnostics had no file.)
* `all_rule_passes_in_pipeline` — the passes that implement the documented rules are all present in
  `Validate`'s pass list, and name / structure rules run before type resolution.
* `import_and_version_errors_returned` — from C11: the errors of imported packages (recursive
  parse) and of every previous version (parse, validate, evolution) are returned to the caller.

* `type_rules_enforced_anywhere` with `null_must_be_first`, `null_alone_is_rejected`, `unions_do_not_nest`,
  `map_key_must_be_scalar`, `array_dimension_rules` — the union / map / array rules themselves
  (`YardlModel/TypeRules.lean`: one predicate per type node, over types whose names are primitives), and that a node
  breaking them is rejected wherever it occurs; `accepted_enum_is_well_formed` (what `validateEnums` guarantees).

Tie (`checks/c09.py`): random types over primitive names (40 % of them rule-breaking) judged by `yardl validate` and by
`TypeRules.typeOk` (verdicts must agree); one violation of each documented rule is injected into valid random packages at
every kind of position and placement; `yardl validate` must fail and name the offending file.
-/

namespace Yardl.C09
open Yardl.Syntax Yardl.Rules Yardl.Generated

theorem violation_anywhere_rejects (rule : Sur → Bool) (s t : Sur) (h : Sub s t) (hbad : rule s = false) :
    validType rule t = false := by
  have hm := sub_mem_subterms h
  simp only [validType]
  apply Bool.eq_false_iff.mpr
  intro hall
  have := List.all_eq_true.mp hall s hm
  simp [hbad] at this

theorem accepted_means_every_node_ok (rule : Sur → Bool) (t : Sur) (h : validType rule t = true) :
    ∀ s, Sub s t → rule s = true := by
  intro s hs
  exact List.all_eq_true.mp h s (sub_mem_subterms hs)

/-- non-vacuity: a stream-like marker type five levels down, inside a generic argument inside a union case -/
example :
    let bad : Sur := .named "Stream" .nil
    let t : Sur := .vector (.map (.named "string" .nil) (.opt (.union (.cons none (.named "int" .nil)
      (.cons none (.named "Box" (.cons (.array bad none) .nil)) .nil))))) none
    Sub bad t := by
  refine .vec _ _ _ (.val _ _ _ (.opt _ _ (.case _ _ _ (.tail _ _ _ _ (.head _ _ _)) (.arg _ _ _ _ (.head _ _) (.arr _ _ _ (.refl _))))))

/-! ### the rules themselves (`YardlModel/TypeRules.lean`), enforced wherever the node occurs -/

open Yardl.TypeRules in
/-- a type node that breaks the union / map / array rules makes every type that contains it rejected -/
theorem type_rules_enforced_anywhere (canon : Canon) (s t : Sur) (h : Sub s t) (hbad : nodeOk canon s = false) :
    typeOk canon t = false :=
  violation_anywhere_rejects (nodeOk canon) s t h hbad

open Yardl.TypeRules in
/-- `null` anywhere but first in a union is rejected, whatever the other cases and tags are -/
theorem null_must_be_first (canon : Canon) (tag tag' : Option String) (t : Sur) (rest : SurC) :
    nodeOk canon (.union (.cons tag t (.null tag' rest))) = false := by
  simp [nodeOk, unionOk, SurC.toList]

open Yardl.TypeRules in
/-- `null` alone is not a union -/
theorem null_alone_is_rejected (canon : Canon) (tag : Option String) : nodeOk canon (.union (.null tag .nil)) = false := by
  simp [nodeOk, unionOk, SurC.toList]

open Yardl.TypeRules in
/-- an optional or a union of several cases directly inside an optional or a union of several cases is rejected -/
theorem unions_do_not_nest (canon : Canon) (inner : Sur) (hi : unionLike inner = true) (tag tag' : Option String) (u : Sur) (rest : SurC) :
    nodeOk canon (.opt inner) = false ∧
    nodeOk canon (.union (.cons tag inner (.cons tag' u rest))) = false ∧
    nodeOk canon (.union (.cons tag u (.cons tag' inner rest))) = false := by
  refine ⟨?_, ?_, ?_⟩ <;> simp [nodeOk, unionOk, SurC.toList, hi]

open Yardl.TypeRules in
/-- a map key that is a vector, an array, a map, an optional or a union of several cases is rejected -/
theorem map_key_must_be_scalar (canon : Canon) (v x y : Sur) (l : Option Nat) (d : Option (List Dim)) (tag tag' : Option String) (rest : SurC) :
    nodeOk canon (.map (.vector x l) v) = false ∧ nodeOk canon (.map (.array x d) v) = false ∧
    nodeOk canon (.map (.map x y) v) = false ∧ nodeOk canon (.map (.opt x) v) = false ∧
    nodeOk canon (.map (.union (.cons tag x (.cons tag' y rest))) v) = false := by
  refine ⟨?_, ?_, ?_, ?_, ?_⟩ <;> simp [nodeOk, keyOk, under]

open Yardl.TypeRules in
/-- lengths on some dimensions only, or a repeated dimension name, are rejected -/
theorem array_dimension_rules (canon : Canon) (t : Sur) (n : String) (k : Nat) (ds : List Dim) :
    nodeOk canon (.array t (some (⟨some n, some k⟩ :: ⟨some (n ++ "x"), none⟩ :: ds))) = false ∧
    nodeOk canon (.array t (some (⟨some n, none⟩ :: ⟨some n, none⟩ :: ds))) = false := by
  constructor <;> simp [nodeOk, dimsOk, distinctStr]

open Yardl.TypeRules in
/-- what an accepted enum / flags definition guarantees (`validateEnums`): camelCase distinct symbols, distinct values, an
    integer base type, and every value inside the base type's range -/
theorem accepted_enum_is_well_formed (base : Option Prim) (values : List (String × Int)) (h : enumOk base values = true) :
    (∀ v ∈ values, memberName v.1 = true) ∧ distinctStr (values.map (·.1)) = true ∧ distinctInt (values.map (·.2)) = true ∧
    ∃ lo hi, (base.getD .int32).range = some (lo, hi) ∧ ∀ v ∈ values, lo ≤ v.2 ∧ v.2 ≤ hi := by
  unfold enumOk at h
  simp only [Bool.and_eq_true, List.all_eq_true] at h
  obtain ⟨⟨⟨h1, h2⟩, h3⟩, h4⟩ := h
  refine ⟨h1, h2, h3, ?_⟩
  cases hb : base.getD .int32 <;> simp only [hb] at h4 <;> (try (simp at h4; done)) <;>
    (refine ⟨_, _, rfl, ?_⟩; simpa [Prim.range] using h4)

/-- non-vacuity: a well-formed nested type is accepted by the model -/
example : TypeRules.typeOk (fun _ => some "p")
    (.map (.named "k" .nil) (.vector (.opt (.array (.named "v" .nil) (some [⟨none, some 2⟩, ⟨none, some 3⟩]))) none)) = true := by
  decide

def notChildren (s f : String) : Bool :=
  f.startsWith "Resolved" || (s == "Namespace" && f == "References") ||
  (s == "DefinitionMeta" && (f == "TypeArguments" || f == "TypeParameters"))

theorem visitor_reaches_every_child :
    ∀ r ∈ visitorFields, r.2.2 = true ∨ notChildren r.1 r.2.1 = true := by
  decide +kernel

/-- the node kinds the rules are stated on are all walked -/
theorem visitor_covers_type_nodes :
    ("SimpleType", "TypeArguments", true) ∈ visitorFields ∧ ("GeneralizedType", "Dimensionality", true) ∈ visitorFields ∧
    ("TypeCase", "Type", true) ∈ visitorFields ∧ ("Map", "KeyType", true) ∈ visitorFields ∧
    ("Field", "Type", true) ∈ visitorFields ∧ ("ProtocolStep", "Type", true) ∈ visitorFields ∧
    ("NamedType", "Type", true) ∈ visitorFields ∧ ("SubscriptExpression", "Arguments", true) ∈ visitorFields := by
  decide +kernel

theorem all_rule_passes_in_pipeline :
    ∀ p ∈ ["validateTypeDefinitionNames", "validateGenericTypeDefinitions", "validateRecordFieldNames", "validateProtocolSequenceNames",
           "validateArrayAndVectorDimensions", "validateMaps", "validateStreams", "resolveTypes", "topologicalSortTypes",
           "validateUnionCases", "validateEnums", "resolveComputedFields", "validateGenericParametersUsed"],
      p ∈ validationPasses := by
  decide +kernel

theorem import_and_version_errors_returned :
    (∀ r ∈ calls_validatePackage, r.2.1 = "returned") ∧ (∀ r ∈ calls_parsePackageNamespaces, r.2.1 = "returned") ∧
    ("parsePackageNamespaces" ∈ calls_parsePackageNamespaces.map (·.1)) :=
  ⟨C11.nested_errors_propagate.1, C11.nested_errors_propagate.2.2.1, C11.nested_errors_propagate.2.2.2.2⟩

/-- a reference cycle through a written definition is rejected however it is closed — `deps` lists every
    same-namespace definition mentioned anywhere in a definition's body, including inside the type
    arguments of local or imported generics (`Topo.sort` = topologicalSortTypes) -/
theorem reference_cycle_is_rejected (deps : Topo.Deps) (fuel : Nat) (written : List Nat) (n : Nat) (hn : n ∈ written)
    (hc : Topo.Path deps n n) : Topo.sort deps fuel written = none :=
  Topo.cycle_is_rejected deps fuel written n hn hc

end Yardl.C09
