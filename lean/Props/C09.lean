import YardlProofs.Rules
import YardlGenerated.Pipeline
import Props.C11
import YardlProofs.Topo

/-!
# C09 — The language rules are enforced wherever a violation occurs

Proved here:
* `violation_anywhere_rejects` / `accepted_means_every_node_ok` — in the model of a validation pass that
  applies a rule to every node the traversal reaches (`Rules.validType`), a node that breaks the rule
  makes the whole type rejected **wherever** it occurs: directly, inside generic arguments, optionals,
  union cases, vectors, arrays, map keys or values, at any depth; for every rule.
* `visitor_reaches_every_child` — over facts regenerated from the current source (go/types + go/ast):
  every field of every `dsl` node struct that can hold child nodes is walked by `VisitChildren`,
  except the derived back-references listed here (`Resolved*`, `Namespace.References`, the instantiated
  `DefinitionMeta.TypeArguments` / `TypeParameters`). (Before fix 4cc805c `SubscriptArgument` had no
  case at all: its diagnostics had no file.)
* `all_rule_passes_in_pipeline` — the passes that implement the documented rules are all present in
  `Validate`'s pass list, and name / structure rules run before type resolution.
* `import_and_version_errors_returned` — from C11: the errors of imported packages (recursive
  parse) and of every previous version (parse, validate, evolution) are returned to the caller.

Tie (`checks/c09.py`): one violation of each documented rule is injected into valid random packages at
every kind of position and placement; `yardl validate` must fail and name the offending file.
-/

namespace Yardl.C09
open Yardl.Syntax Yardl.Rules Yardl.Generated

theorem violation_anywhere_rejects (rule : Sur → Bool) (s t : Sur) (h : Sub s t) (hbad : rule s = false) :
    validType rule t = false := by
  have hm := sub_mem_subterms h
  simp only [validType]
  apply Bool.eq_false_iff.mpr
  intro hall
  have := List.all_eq_true.mp hall s hm
  simp [hbad] at this

theorem accepted_means_every_node_ok (rule : Sur → Bool) (t : Sur) (h : validType rule t = true) :
    ∀ s, Sub s t → rule s = true := by
  intro s hs
  exact List.all_eq_true.mp h s (sub_mem_subterms hs)

/-- non-vacuity: a stream-like marker type five levels down, inside a generic argument inside a union case -/
example :
    let bad : Sur := .named "Stream" .nil
    let t : Sur := .vector (.map (.named "string" .nil) (.opt (.union (.cons none (.named "int" .nil)
      (.cons none (.named "Box" (.cons (.array bad none) .nil)) .nil))))) none
    Sub bad t := by
  refine .vec _ _ _ (.val _ _ _ (.opt _ _ (.case _ _ _ (.tail _ _ _ _ (.head _ _ _)) (.arg _ _ _ _ (.head _ _) (.arr _ _ _ (.refl _))))))

def notChildren (s f : String) : Bool :=
  f.startsWith "Resolved" || (s == "Namespace" && f == "References") ||
  (s == "DefinitionMeta" && (f == "TypeArguments" || f == "TypeParameters"))

theorem visitor_reaches_every_child :
    ∀ r ∈ visitorFields, r.2.2 = true ∨ notChildren r.1 r.2.1 = true := by
  decide +kernel

/-- the node kinds the rules are stated on are all walked -/
theorem visitor_covers_type_nodes :
    ("SimpleType", "TypeArguments", true) ∈ visitorFields ∧ ("GeneralizedType", "Dimensionality", true) ∈ visitorFields ∧
    ("TypeCase", "Type", true) ∈ visitorFields ∧ ("Map", "KeyType", true) ∈ visitorFields ∧
    ("Field", "Type", true) ∈ visitorFields ∧ ("ProtocolStep", "Type", true) ∈ visitorFields ∧
    ("NamedType", "Type", true) ∈ visitorFields ∧ ("SubscriptExpression", "Arguments", true) ∈ visitorFields := by
  decide +kernel

theorem all_rule_passes_in_pipeline :
    ∀ p ∈ ["validateTypeDefinitionNames", "validateGenericTypeDefinitions", "validateRecordFieldNames", "validateProtocolSequenceNames",
           "validateArrayAndVectorDimensions", "validateMaps", "validateStreams", "resolveTypes", "topologicalSortTypes",
           "validateUnionCases", "validateEnums", "resolveComputedFields", "validateGenericParametersUsed"],
      p ∈ validationPasses := by
  decide +kernel

theorem import_and_version_errors_returned :
    (∀ r ∈ calls_validatePackage, r.2.1 = "returned") ∧ (∀ r ∈ calls_parsePackageNamespaces, r.2.1 = "returned") ∧
    ("parsePackageNamespaces" ∈ calls_parsePackageNamespaces.map (·.1)) :=
  ⟨C11.nested_errors_propagate.1, C11.nested_errors_propagate.2.2.1, C11.nested_errors_propagate.2.2.2.2⟩

/-- a reference cycle through a written definition is rejected however it is closed — `deps` lists every
    same-namespace definition mentioned anywhere in a definition's body, including inside the type
    arguments of local or imported generics (`Topo.sort` = topologicalSortTypes) -/
theorem reference_cycle_is_rejected (deps : Topo.Deps) (fuel : Nat) (written : List Nat) (n : Nat) (hn : n ∈ written)
    (hc : Topo.Path deps n n) : Topo.sort deps fuel written = none :=
  Topo.cycle_is_rejected deps fuel written n hn hc

end Yardl.C09
