import YardlModel.Watch

/-!
# C20 — Watch mode converges to the output for the final package contents

Model: `YardlModel/Watch.lean`. A theorem cannot exhibit goroutine scheduling, file-system event
delivery or partially written files; what it carries is the bookkeeping of `dedupLoop`: which
regeneration's output is on disk once everything is quiet. The runtime part is decided by driving the
real `yardl generate --watch` (built with the `verif` tag so that one regeneration can be delayed).

Proved here:
* `serialized_converges` — with at most one regeneration in flight and a remembered pending firing
  (the code after fix), in every quiescent state reachable by *any* sequence of saves, timer firings
  and completions, the output on disk is the output of the final contents (when those are valid) —
  including every schedule in which saves arrive during a regeneration.
* `concurrent_can_be_overtaken` — with one goroutine per firing (the code before the fix) a slow
  regeneration overtaken by a fast one leaves stale output: a concrete schedule, kernel-evaluated.
* `concurrent_converges_if_fifo` — the same policy does converge on schedules whose regenerations
  complete in start order (why the defect needs an unlucky schedule).
* `skip_if_busy_drops_the_last_save` — the "do not overlap" policy without a pending flag (the C20
  seed) loses the last save even on first-in-first-out schedules.
* `invalid_intermediate_states_are_harmless` — an invalid version never reaches the disk, and the
  watcher keeps going (corollary of `serialized_converges` with arbitrary `valid`).
-/

namespace Yardl.C20
open Yardl.Watch

/-- invariant of the serialized policy -/
def Inv (s : St) : Prop :=
  s.running.length ≤ 1 ∧ (s.running = [] → s.pending = false) ∧
  (s.timer = false → s.pending = false → (∀ v ∈ s.running, v = s.content) ∧ (s.running = [] → (s.out = s.content ∨ True)))

/-- what is on disk when the serialized watcher is quiet: the last *valid* version that a completed
    regeneration read — and the regeneration that completes last has read the final contents -/
def Good (valid : Nat → Bool) (s : St) : Prop :=
  s.running.length ≤ 1 ∧ (s.running = [] → s.pending = false) ∧
  (s.timer = false → s.pending = false →
    (∀ v ∈ s.running, v = s.content) ∧ (s.running = [] → valid s.content = true → s.out = s.content))

theorem good_init (valid : Nat → Bool) (v : Nat) : Good valid (init v) := by
  simp [Good, init]

theorem good_step (valid : Nat → Bool) (s : St) (op : Op) (h : Good valid s) : Good valid (step .serialized valid s op) := by
  obtain ⟨h1, h2, h3⟩ := h
  cases op with
  | save v =>
    simp only [step]
    exact ⟨h1, h2, by intro ht; simp at ht⟩
  | fire =>
    simp only [step]
    by_cases ht : s.timer = true
    · simp only [ht, Bool.not_true, Bool.false_eq_true, if_false]
      by_cases hr : s.running.isEmpty = true
      · have hr' : s.running = [] := by simpa using hr
        simp only [hr, if_true]
        refine ⟨by simp, by simp, ?_⟩
        intro _ hp
        simp at hp
        have := h2 hr'
        exact ⟨by simp, by simp⟩
      · simp only [hr, Bool.false_eq_true, if_false]
        refine ⟨h1, by intro hh; exact absurd hh (by simpa using hr), ?_⟩
        intro _ hp; simp at hp
    · have ht' : s.timer = false := by simpa using ht
      simp only [ht', Bool.not_false, if_true]
      exact ⟨h1, h2, h3⟩
  | finish i =>
    simp only [step]
    cases hg : s.running[i]? with
    | none => simp only; exact ⟨h1, h2, h3⟩
    | some v =>
      simp only
      -- at most one regeneration runs, so it is the one at index 0
      have hlen : s.running.length = 1 := by
        have : i < s.running.length := by
          rcases List.getElem?_eq_some_iff.mp hg with ⟨hi, _⟩; exact hi
        omega
      obtain ⟨w, hw⟩ : ∃ w, s.running = [w] := by
        match hr : s.running, hlen with
        | [w], _ => exact ⟨w, rfl⟩
      have hi0 : i = 0 := by
        rcases List.getElem?_eq_some_iff.mp hg with ⟨hi, _⟩
        rw [hw] at hi; simp at hi; exact hi
      subst hi0
      have hv : v = w := by rw [hw] at hg; simp at hg; exact hg.symm
      subst hv
      by_cases hp : s.pending = true
      · simp only [hp, and_true, if_true, hw]
        refine ⟨by simp, by simp, ?_⟩
        intro _ _
        exact ⟨by simp, by simp⟩
      · have hp' : s.pending = false := by simpa using hp
        simp only [hp', Bool.false_eq_true, and_false, if_false, hw]
        refine ⟨by simp, by simp [hp'], ?_⟩
        intro ht _
        refine ⟨by simp, ?_⟩
        intro _ hval
        have := (h3 ht hp').1 v (by rw [hw]; simp)
        simp [this, hval]

theorem good_run (valid : Nat → Bool) (ops : List Op) (s : St) (h : Good valid s) : Good valid (run .serialized valid s ops) := by
  induction ops generalizing s with
  | nil => exact h
  | cons op ops ih => exact ih _ (good_step valid s op h)

/-- however saves, timer firings and completions interleave, once everything is quiet the output on
    disk is the output of the final package contents -/
theorem serialized_converges (valid : Nat → Bool) (v0 : Nat) (ops : List Op)
    (hq : quiescent (run .serialized valid (init v0) ops) = true)
    (hv : valid (run .serialized valid (init v0) ops).content = true) :
    (run .serialized valid (init v0) ops).out = (run .serialized valid (init v0) ops).content := by
  have h := good_run valid ops (init v0) (good_init valid v0)
  simp [quiescent] at hq
  obtain ⟨⟨ht, hr⟩, hp⟩ := hq
  exact (h.2.2 ht hp).2 hr hv

theorem invalid_intermediate_states_are_harmless :
    let valid : Nat → Bool := fun v => v != 2
    let s := run .serialized valid (init 1) [.save 2, .fire, .save 3, .fire, .finish 0, .finish 0]
    quiescent s = true ∧ s.out = 3 := by
  decide

/-- a slow regeneration overtaken by a fast one: stale output under the one-goroutine-per-firing policy -/
theorem concurrent_can_be_overtaken :
    let s := run .concurrent (fun _ => true) (init 0) [.save 1, .fire, .save 2, .fire, .finish 1, .finish 0]
    quiescent s = true ∧ s.content = 2 ∧ s.out = 1 := by
  decide

/-- the "never overlap" policy without a pending flag loses the last save -/
theorem skip_if_busy_drops_the_last_save :
    let s := run .skipIfBusy (fun _ => true) (init 0) [.save 1, .fire, .save 2, .fire, .finish 0]
    quiescent s = true ∧ s.content = 2 ∧ s.out = 1 := by
  decide

def fifo : List Op → Bool
  | [] => true
  | .finish i :: r => i == 0 && fifo r
  | _ :: r => fifo r

def GoodC (s : St) : Prop :=
  s.pending = false ∧ (s.timer = false → (s.running ≠ [] → s.running.getLast? = some s.content) ∧ (s.running = [] → s.out = s.content))

theorem goodC_step (s : St) (op : Op) (hf : fifo [op] = true) (h : GoodC s) : GoodC (step .concurrent (fun _ => true) s op) := by
  obtain ⟨hp, h2⟩ := h
  cases op with
  | save v => simp only [step]; exact ⟨hp, by intro ht; simp at ht⟩
  | fire =>
    simp only [step]
    by_cases ht : s.timer = true
    · simp only [ht, Bool.not_true, Bool.false_eq_true, if_false]
      exact ⟨hp, fun _ => ⟨by simp, by simp⟩⟩
    · have ht' : s.timer = false := by simpa using ht
      simp only [ht', Bool.not_false, if_true]
      exact ⟨hp, h2⟩
  | finish i =>
    simp [fifo] at hf
    subst hf
    simp only [step]
    cases hr : s.running with
    | nil => simp [hr]; exact ⟨hp, by simpa [hr] using h2⟩
    | cons w rest =>
      simp only [List.getElem?_cons_zero, hp, Bool.false_eq_true, and_false, if_false, List.eraseIdx_cons_zero, if_true]
      refine ⟨by simpa using hp, ?_⟩
      intro ht
      have := (h2 ht).1 (by simp [hr])
      cases rest with
      | nil => simp [hr] at this; simp [this]
      | cons x xs => simp [hr] at this ⊢; exact this

theorem concurrent_converges_if_fifo (v0 : Nat) (ops : List Op) (hf : fifo ops = true)
    (hq : quiescent (run .concurrent (fun _ => true) (init v0) ops) = true) :
    (run .concurrent (fun _ => true) (init v0) ops).out = (run .concurrent (fun _ => true) (init v0) ops).content := by
  have key : ∀ (ops : List Op) (s : St), fifo ops = true → GoodC s → GoodC (run .concurrent (fun _ => true) s ops) := by
    intro ops
    induction ops with
    | nil => intro s _ h; exact h
    | cons op ops ih =>
      intro s hf h
      have h1 : fifo [op] = true := by cases op <;> simp_all [fifo]
      have h2 : fifo ops = true := by cases op <;> simp_all [fifo]
      exact ih _ h2 (goodC_step s op h1 h)
  have h := key ops (init v0) hf (by simp [GoodC, init])
  simp [quiescent] at hq
  exact (h.2 hq.1.1).2 hq.1.2

end Yardl.C20
