import YardlProofs.Closure
import YardlProofs.WireStream

/-!
# C04 — Every stream carries a schema that pins down its encoding

Proved here:
* `header_carries_schema` / `header_determines_schema`: every binary stream starts with the format
  header followed by the schema, and a stream determines its schema.
* The traversal that collects the schema's `types` (`GetProtocolSchema`: visited-set DFS + sort) is
  modelled in `YardlModel/Closure.lean`; `closure_exact` shows that it yields exactly the named types
  reachable from the protocol, hence the schema depends only on the protocol and the types it
  transitively uses: `closure_order_independent` (definition/field order, repeated references) and
  `closure_ignores_unreachable` (adding or editing an unreferenced definition).

Decided by correspondence (`checks/c04.py`): `planOfSchema` (`YardlModel/Schema.lean`) — a reader that
sees only the schema text — reconstructs the true wire types of every protocol of random and directed
packages, so two protocols that encode differently never share a schema text; the text is identical
in generated C++, Python, MATLAB and in-process; neutral edits keep it; wire-affecting edits change
it. Not recorded by the schema (known finding): `!enum` versus `!flags`, which changes the NDJSON
encoding only.
-/

namespace Yardl.C04
open Yardl Yardl.Closure

theorem header_carries_schema (schema body : Bytes) :
    ∃ rest, encHeader schema ++ body = magic ++ encLE 4 1 ++ rest ∧ decHeader (encHeader schema ++ body) = some (schema, body) := by
  refine ⟨encVar schema.length ++ schema ++ body, ?_, decHeader_encHeader schema body⟩
  simp [encHeader, List.append_assoc]

theorem header_determines_schema (s₁ s₂ b₁ b₂ : Bytes) (h : encHeader s₁ ++ b₁ = encHeader s₂ ++ b₂) : s₁ = s₂ := by
  have h1 := decHeader_encHeader s₁ b₁
  rw [h, decHeader_encHeader] at h1
  simp at h1
  exact h1.1.symm

theorem closure_exact (refs : Refs) (fuel : Nat) (roots vis : List Nat) (h : closure refs fuel roots = some vis) :
    ∀ x, x ∈ vis ↔ ∃ r ∈ roots, Reach refs r x :=
  Closure.closure_exact refs fuel roots vis h

theorem closure_order_independent (r₁ r₂ : Refs) (f₁ f₂ : Nat) (roots₁ roots₂ v₁ v₂ : List Nat)
    (h : ∀ n m, m ∈ r₁ n ↔ m ∈ r₂ n) (hr : ∀ x, x ∈ roots₁ ↔ x ∈ roots₂)
    (h₁ : closure r₁ f₁ roots₁ = some v₁) (h₂ : closure r₂ f₂ roots₂ = some v₂) : ∀ x, x ∈ v₁ ↔ x ∈ v₂ :=
  Closure.closure_order_independent r₁ r₂ f₁ f₂ roots₁ roots₂ v₁ v₂ h hr h₁ h₂

theorem closure_ignores_unreachable (r₁ r₂ : Refs) (f₁ f₂ : Nat) (roots v₁ v₂ : List Nat) (u : Nat)
    (hsame : ∀ n, n ≠ u → r₁ n = r₂ n) (hun : ∀ r ∈ roots, ¬ Reach r₁ r u)
    (h₁ : closure r₁ f₁ roots = some v₁) (h₂ : closure r₂ f₂ roots = some v₂) : ∀ x, x ∈ v₁ ↔ x ∈ v₂ :=
  Closure.closure_ignores_unreachable r₁ r₂ f₁ f₂ roots v₁ v₂ u hsame hun h₁ h₂

/-! Non-vacuity: protocol mentions 1; 1 → 2,3; 3 → 2; 4 unreferenced. The generic revisited with
    other arguments (the seeded defect C04/C15) is the shape 1 → [5(7), 5(8)]: both 7 and 8 are found. -/
def exRefs : Refs := fun n => match n with | 1 => [2, 3] | 3 => [2] | 4 => [1] | _ => []
example : closure exRefs 10 [1] = some [3, 2, 1] := by decide
def exGeneric : Refs := fun n => match n with | 1 => [5, 7, 5, 8] | 8 => [9] | _ => []
example : closure exGeneric 10 [1] = some [9, 8, 7, 5, 1] := by decide

end Yardl.C04
