import YardlProofs.WireStream

/-!
# C15 — Readers refuse streams of a different schema or format

`decHeader` is the reference header reader; `accept allowed` is the reader's decision (own schema,
plus registered previous versions for C++). The generated readers are tied to it by
`checks/c15.py` (cross-feeding streams between near-identical protocols; systematic header
corruption) — they must raise before returning any value whenever `accept` says no.
-/

namespace Yardl.C15

/-- The reader's decision: the header is well-formed and carries an allowed schema. -/
def accept (allowed : List Bytes) (bs : Bytes) : Option (Bytes × Bytes) :=
  match decHeader bs with
  | none => none
  | some (schema, body) => if schema ∈ allowed then some (schema, body) else none

theorem own_stream_accepted (allowed : List Bytes) (schema body : Bytes) (h : schema ∈ allowed) :
    accept allowed (encHeader schema ++ body) = some (schema, body) := by
  simp [accept, decHeader_encHeader, h]

theorem foreign_schema_refused (allowed : List Bytes) (schema body : Bytes) (h : schema ∉ allowed) :
    accept allowed (encHeader schema ++ body) = none := by
  simp [accept, decHeader_encHeader, h]

/-- Headers are self-delimiting: a stream determines its schema and where the body starts. -/
theorem header_injective (s₁ s₂ b₁ b₂ : Bytes) (h : encHeader s₁ ++ b₁ = encHeader s₂ ++ b₂) :
    s₁ = s₂ ∧ b₁ = b₂ := by
  have h1 := decHeader_encHeader s₁ b₁
  rw [h, decHeader_encHeader] at h1
  simp at h1
  exact ⟨h1.1.symm, h1.2.symm⟩

theorem bad_magic_refused (bs m r : Bytes) (h : takeN 5 bs = some (m, r)) (hm : m ≠ magic) :
    decHeader bs = none := by
  simp [decHeader, h, hm]

theorem short_header_refused (bs : Bytes) (h : takeN 5 bs = none) : decHeader bs = none := by
  simp [decHeader, h]

theorem bad_version_refused (bs r r' : Bytes) (v : Nat) (h : takeN 5 bs = some (magic, r))
    (hv : decLE 4 r = some (v, r')) (hne : v ≠ 1) : decHeader bs = none := by
  simp [decHeader, h, hv, hne]

/-- Whatever `accept` returns is what `decHeader` found: nothing is decoded from a refused stream. -/
theorem accept_sound (allowed : List Bytes) (bs schema body : Bytes)
    (h : accept allowed bs = some (schema, body)) : decHeader bs = some (schema, body) ∧ schema ∈ allowed := by
  unfold accept at h
  cases hd : decHeader bs with
  | none => simp [hd] at h
  | some p =>
    obtain ⟨s, b⟩ := p
    simp only [hd] at h
    by_cases hm : s ∈ allowed
    · simp [hm] at h; exact ⟨by rw [h.1, h.2], by rw [← h.1]; exact hm⟩
    · simp [hm] at h

example : accept [[0x7b, 0x7d]] (encHeader [0x7b, 0x7d] ++ [1, 2, 3]) = some ([0x7b, 0x7d], [1, 2, 3]) :=
  own_stream_accepted _ _ _ (by simp)

end Yardl.C15
