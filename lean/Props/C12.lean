import YardlProofs.Determinism
import YardlGenerated.MapRanges

/-!
# C12 — Output is a deterministic, idempotent function of the package

Go randomises map iteration order in every process, so "repeated runs give byte-identical results"
is a statement about *all* iteration orders. It is decided as follows.

1. `every_map_range_is_order_free`: the translator lists **every** `range` over a map-typed
   expression in `/repo/tooling` (go/types) on every run and classifies it against the committed
   expectations (`harness/py/maprange_expect.json`); a new site, a changed loop body or a site that
   lost its sort is emitted as `other`, and this theorem (by `decide` over the regenerated list)
   fails.
2. For each class the order-independence is a theorem for arbitrary sizes:
   `commutative_accumulation_order_free`, `sorted_keys_order_free`, `sorted_sink_order_free`.
3. `sinks_sort_by_a_total_key`: both sinks still compare file, line, column **and message** — the
   message tie-break is what makes the order total (two diagnostics at one position with different
   texts), see the seeded change `C12-diagnostics-sorted-without-message-tiebreak`.

4. `regeneration_touches_nothing`, `file_written_iff_different`: the output directory under `WriteFileIfNeeded`
   (`YardlModel/Determinism.lean`): a second run over unchanged input writes no file. `checks/c12.py` drives the
   real `iocommon.WriteFileIfNeeded` in-process at sizes around every power-of-two block boundary against
   `Det.writeIfNeeded`.

The syntactic classification is trusted (stated in DESIGN.md); `checks/c12.py` runs the real CLI
repeatedly on packages built to put ≥ 3 entries into every listed map and diffs all outputs, and
checks that regenerating an unchanged package leaves every file untouched.
-/

namespace Yardl.C12
open Yardl.Det Yardl.Generated

theorem every_map_range_is_order_free : ∀ s ∈ mapRangeSites, s.2.2.2 ≠ SiteClass.other := by decide

theorem sinks_sort_by_a_total_key :
    ∀ s ∈ sinkOrderingKeys, s.2 = ["File", "Line", "Column", "Message"] := by decide

theorem sorted_sink_order_free (l₁ l₂ : List Diag) (hw : ∀ d ∈ l₁, Wf d) (h₁ : Sorted l₁) (h₂ : Sorted l₂)
    (hp : l₁.Perm l₂) : l₁ = l₂ :=
  sorted_perm_eq l₁ l₂ hw h₁ h₂ hp

theorem commutative_accumulation_order_free {α β : Type} (f : β → α → β)
    (hcomm : ∀ b x y, f (f b x) y = f (f b y) x) (l₁ l₂ : List α) (hp : l₁.Perm l₂) (b : β) :
    l₁.foldl f b = l₂.foldl f b :=
  foldl_perm_invariant f hcomm l₁ l₂ hp b

theorem sorted_keys_order_free (l₁ l₂ : List Nat) (h₁ : l₁.Pairwise (· ≤ ·)) (h₂ : l₂.Pairwise (· ≤ ·))
    (hp : l₁.Perm l₂) : l₁ = l₂ :=
  sorted_keys_invariant l₁ l₂ h₁ h₂ hp

/-- Without the message tie-break the order is not determined: two diagnostics at the same position
    are both "sorted" in either order (the situation of the seeded change). -/
def lessNoMsg (a b : Diag) : Bool :=
  if a.file ≠ b.file then a.file < b.file
  else if a.line.getD 0 ≠ b.line.getD 0 then a.line.getD 0 < b.line.getD 0
  else a.col.getD 0 < b.col.getD 0

theorem no_tiebreak_is_ambiguous :
    ∃ a b : Diag, a ≠ b ∧ lessNoMsg a b = false ∧ lessNoMsg b a = false :=
  ⟨⟨1, some 3, some 5, 10⟩, ⟨1, some 3, some 5, 11⟩, by decide, by decide, by decide⟩

/-! Non-vacuity. -/
example : Sorted [⟨1, some 3, some 5, 10⟩, ⟨1, some 3, some 5, 11⟩, ⟨2, none, none, 0⟩] := by
  simp [Sorted, less]
example : Wf ⟨1, some 3, some 5, 10⟩ := by simp [Wf]

/-! ### idempotence: every generator writes through `WriteFileIfNeeded` -/

/-- regenerating an unchanged package (the generators emit the same files with the same contents, each path once):
    no file is written the second time and the output tree is what the first run left, whatever was in the
    output directory before the first run -/
theorem regeneration_touches_nothing (files : List (Nat × List UInt8)) (fs : Fs) (hd : pathsDistinct files = true) :
    generate files (generate files fs).1 = ((generate files fs).1, []) :=
  second_run_touches_nothing files fs hd

/-- a file is written exactly when it is missing or holds other bytes (any length, any position of the difference) -/
theorem file_written_iff_different (fs : Fs) (f : Nat × List UInt8) :
    (writeIfNeeded (fs, []) f).2 = (if fs.get f.1 = some f.2 then [] else [f.1]) :=
  touched_iff_different fs f

/-- after a run every emitted file holds the emitted bytes -/
theorem generated_files_hold_their_content (files : List (Nat × List UInt8)) (fs : Fs) (hd : pathsDistinct files = true) :
    ∀ f ∈ files, (generate files fs).1.get f.1 = some f.2 :=
  fun f hf => foldl_content files (fs, []) hd f hf

/-- the hypothesis matters: a path emitted twice with different contents is rewritten on every run -/
example : (generate [(1, [1]), (1, [2])] (generate [(1, [1]), (1, [2])] []).1).2 ≠ [] := by decide

example : pathsDistinct [(1, [1, 2]), (2, []), (3, [9])] = true := by decide


end Yardl.C12
