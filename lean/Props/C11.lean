import YardlProofs.Cli
import YardlGenerated.Pipeline

/-!
# C11 — Generation is all-or-nothing with respect to validation

`generateImpl` is modelled as its (regenerated) list of calls over an abstract file system.

* `no_write_before_validation`, `validation_error_is_returned`: facts about the *current source*
  (go/ast): nothing that may write precedes `validatePackage`, whose error is returned; every callee
  not known to be pure counts as a writer, so inserting any new call before validation breaks this.
* `invalid_package_leaves_fs_untouched`: for every file system (empty or populated), every
  behaviour of the other calls and every effect of the writers, if validation fails then the file
  system is unchanged and the command fails.
* `nested_errors_propagate`: inside `validatePackage` / `parseAndFlattenNamespaces` /
  `parsePackageNamespaces` the error of every parse, validate and evolution call — main package,
  imports (recursive call) and previous versions — is returned, never swallowed. (Before
  5cf9e7b the recursive call's error was swallowed: `("parsePackageNamespaces", "swallowed", true)`.)

`checks/c11.py` runs the real CLI on invalid packages (error in the main package, an import, a
previous version, the evolution check, the manifest) × output configurations × {empty, populated}
output directories and compares recursive content+mtime snapshots.
-/

namespace Yardl.C11
open Yardl.Cli Yardl.Generated

def pipeline : List Call := ofTable calls_generateImpl

/-- index of `validatePackage` in `generateImpl` -/
def vIdx : Nat := (pipeline.findIdx (fun c => c.name == "validatePackage"))

theorem validation_call_exists : ∃ c, pipeline[vIdx]? = some c ∧ c.name = "validatePackage" := by decide

theorem no_write_before_validation : ∀ j, j < vIdx → ∀ cj, pipeline[j]? = some cj → cj.writes = false := by decide

theorem validation_error_is_returned :
    ∀ c, pipeline[vIdx]? = some c → c.errReturned = true ∧ c.writes = false := by decide

theorem earlier_errors_are_returned : ∀ j, j < vIdx → ∀ cj, pipeline[j]? = some cj → cj.errReturned = true := by decide

theorem invalid_package_leaves_fs_untouched (fails : Nat → Bool) (effect : Nat → FS → FS) (fs : FS)
    (hinvalid : fails vIdx = true) : run fails effect pipeline fs = (fs, false) := by
  obtain ⟨c, hc, _⟩ := validation_call_exists
  have hv := validation_error_is_returned c hc
  apply runFrom_stops fails effect pipeline 0 vIdx fs c hc no_write_before_validation hv.2 hv.1
  · simpa using hinvalid
  · intro j hj _ cj hcj; exact earlier_errors_are_returned j hj cj hcj

/-- Every fallible step of validation hands its error to the caller. -/
theorem nested_errors_propagate :
    (∀ r ∈ calls_validatePackage, r.2.1 = "returned") ∧
    (∀ r ∈ calls_parseAndFlattenNamespaces, r.2.1 = "returned") ∧
    (∀ r ∈ calls_parsePackageNamespaces, r.2.1 = "returned") ∧
    ("dsl.ValidateEvolution" ∈ calls_validatePackage.map (·.1)) ∧
    ("parsePackageNamespaces" ∈ calls_parsePackageNamespaces.map (·.1)) := by decide

/-- `yardl validate` reports the same validation error (exit status from the same `err`). -/
theorem validate_command_uses_validatePackage : "validatePackage" ∈ calls_validateImpl.map (·.1) := by decide

/-- the generators run after validation, one after the other, each writing its files as it goes: a generator that rejected a model for a reason of
    its own would leave the output of the generators before it modified although the command fails. Over the sites regenerated from the current
    source: no generator package constructs an error (what they return are the I/O errors of the calls they make). -/
theorem generators_only_fail_on_io : generatorErrorSites = [] := by decide


end Yardl.C11
