import YardlModel.WireJson

/-! Line-protocol driver for the wire engine: one JSON request per line on stdin, one JSON
    reply per line on stdout. -/

open Lean Yardl

def strBytes (s : String) : Bytes := s.toUTF8.toList

def bytesStr (bs : Bytes) : String :=
  match String.fromUTF8? (ByteArray.mk bs.toArray) with
  | some s => s
  | none => "<invalid utf8>"

def handle (j : Json) : Except String Json := do
  let op ← (← j.getObjVal? "op").getStr?
  match op with
  | "enc" =>
    let t ← tyOfJson (← j.getObjVal? "ty")
    let v ← valOfJson (← j.getObjVal? "val")
    pure (Json.mkObj [("hex", Json.str (toHex (enc t v))), ("typed", Json.bool (HasType t v))])
  | "dec" =>
    let t ← tyOfJson (← j.getObjVal? "ty")
    let h ← (← j.getObjVal? "hex").getStr?
    let some bs := ofHex h | throw "bad hex"
    match dec t bs with
    | none => pure (Json.mkObj [("error", "decode")])
    | some (v, r) => pure (Json.mkObj [("val", valToJson v), ("rest", jn r.length)])
  | "enc_proto" =>
    let p ← protoOfJson (← j.getObjVal? "proto")
    let parts ← (← j.getObjVal? "parts").getArr?
    let parts ← parts.toList.mapM fun e => do
      let a ← e.getArr?
      a.toList.mapM jNat
    let vals ← (← j.getObjVal? "vals").getArr?
    let vals ← vals.toList.mapM stepValOfJson
    let schema ← (← j.getObjVal? "schema").getStr?
    let bytes := encHeader (strBytes schema) ++ encSteps p parts vals
    pure (Json.mkObj [("hex", Json.str (toHex bytes)), ("typed", Json.bool (hasStepVals p vals))])
  | "dec_proto" =>
    let p ← protoOfJson (← j.getObjVal? "proto")
    let h ← (← j.getObjVal? "hex").getStr?
    let some bs := ofHex h | throw "bad hex"
    match decHeader bs with
    | none => pure (Json.mkObj [("error", "header")])
    | some (schema, body) =>
      match decSteps p (body.length + 2) body with
      | none => pure (Json.mkObj [("error", "body"), ("schema", Json.str (bytesStr schema))])
      | some (vs, r) =>
        pure (Json.mkObj [("schema", Json.str (bytesStr schema)),
          ("vals", Json.arr (vs.map stepValToJson).toArray), ("rest", jn r.length)])
  | _ => throw s!"unknown op {op}"

partial def loop (h : IO.FS.Stream) (out : IO.FS.Stream) : IO Unit := do
  let line ← h.getLine
  if line.isEmpty then return ()
  let reply :=
    match Json.parse line with
    | .error e => Json.mkObj [("fatal", Json.str s!"parse: {e}")]
    | .ok j =>
      match handle j with
      | .ok r => r
      | .error e => Json.mkObj [("fatal", Json.str e)]
  out.putStrLn reply.compress
  out.flush
  loop h out

def main : IO Unit := do
  loop (← IO.getStdin) (← IO.getStdout)
