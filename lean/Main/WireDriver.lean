import YardlModel.WireJson
import YardlModel.Streams
import YardlModel.PyStream
import YardlModel.NdjsonReader
import YardlModel.TypeRules
import YardlGenerated.Tables
import YardlModel.Batch
import YardlModel.Expr
import YardlModel.Imports
import YardlModel.Proto
import YardlModel.ProtoFail
import YardlModel.Schema
import YardlModel.Json
import YardlModel.Plan
import YardlModel.SyntaxJson
import YardlModel.TypeParser
import YardlModel.Determinism
import YardlModel.Namespaces
import YardlModel.Resolve
import YardlModel.ProtoMatlab
import YardlModel.Evolution
import YardlModel.Topo
import YardlModel.Case
import YardlGenerated.Pipeline

/-! Line-protocol driver for the wire engine: one JSON request per line on stdin, one JSON
    reply per line on stdout. -/

open Lean Yardl

def strBytes (s : String) : Bytes := s.toUTF8.toList

def bytesStr (bs : Bytes) : String :=
  match String.fromUTF8? (ByteArray.mk bs.toArray) with
  | some s => s
  | none => "<invalid utf8>"

def wopOfJson (j : Json) : Except String WOp := do
  let a ← j.getArr?
  let tag ← (a[0]?.getD Json.null).getStr?
  let arg (i : Nat) : Json := a[i]?.getD Json.null
  match tag with
  | "b" => pure (.byte (UInt8.ofNat (← jNat (arg 1))))
  | "bn" => pure (.byteNoCheck (UInt8.ofNat (← jNat (arg 1))))
  | "v32" => pure (.var32 (← jNat (arg 1)))
  | "v64" => pure (.var64 (← jNat (arg 1)))
  | "s32" => pure (.var32 (zigzag (← (arg 1).getInt?)))
  | "s64" => pure (.var64 (zigzag (← (arg 1).getInt?)))
  | "f" => pure (.fixed (← jNat (arg 1)) (← jNat (arg 2)))
  | "x" =>
    let h ← (arg 1).getStr?
    match ofHex h with
    | some bs => pure (.bytes bs)
    | none => throw "bad hex"
  | "fl" => pure .flush
  | _ => throw s!"bad wop {tag}"

/-- Runs reader ops on the CIS model; one output token per op, stops at the first failure. -/
def runCis (s : CIS) : List Json → List String → Except String (List String)
  | [], acc => pure acc.reverse
  | j :: rest, acc => do
    let a ← j.getArr?
    let tag ← (a[0]?.getD Json.null).getStr?
    let arg (i : Nat) : Json := a[i]?.getD Json.null
    let fin {α} (r : ROut α) (f : α → String) : Except String (Option (String × CIS) × String) :=
      match r with
      | .ok x s' => pure (some (f x, s'), "")
      | .eos => pure (none, "EOS")
      | .bad => pure (none, "BAD")
      | .notFinished => pure (none, "NOTFINISHED")
    let (res, stop) ← match tag with
      | "b" => fin s.readByte (fun b => s!"b={b.toNat}")
      | "v32" => fin s.readVar32 (fun n => s!"v={n}")
      | "v64" => fin s.readVar64 (fun n => s!"v={n}")
      | "s32" => fin s.readVar32 (fun n => s!"s={unzigzag n}")
      | "s64" => fin s.readVar64 (fun n => s!"s={unzigzag n}")
      | "f" => do fin (s.readFixed (← jNat (arg 1))) (fun n => s!"f={n}")
      | "x" => do fin (s.readBytes (← jNat (arg 1))) (fun bs => s!"x={toHex bs}")
      | "vf" => fin s.verifyFinished (fun _ => "vf=ok")
      | _ => throw s!"bad rop {tag}"
    match res with
    | some (tok, s') => runCis s' rest (tok :: acc)
    | none => pure (stop :: acc).reverse

/-- Runs reader ops on the model of the Python CodedInputStream; one output token per op, stops at the first failure. -/
def runPis (s : PIS) : List Json → List String → Except String (List String)
  | [], acc => pure acc.reverse
  | j :: rest, acc => do
    let a ← j.getArr?
    let tag ← (a[0]?.getD Json.null).getStr?
    let arg (i : Nat) : Json := a[i]?.getD Json.null
    let fin {α} (r : POut α) (f : α → String) : Except String (Option (String × PIS) × String) :=
      match r with
      | .ok x s' => pure (some (f x, s'), "")
      | .eof => pure (none, "EOS")
      | .bufferError => pure (none, "BUFERR")
    let (res, stop) ← match tag with
      | "b" => fin s.readByte (fun b => s!"b={b.toNat}")
      | "v32" | "v64" => fin s.readVar (fun n => s!"v={n}")
      | "s32" | "s64" => fin s.readVar (fun n => s!"s={unzigzag n}")
      | "f" => do fin (s.readFixed (← jNat (arg 1))) (fun n => s!"f={n}")
      | "x" => do fin (s.readBytes (← jNat (arg 1))) (fun bs => s!"x={toHex bs}")
      | _ => throw s!"bad rop {tag}"
    match res with
    | some (tok, s') => runPis s' rest (tok :: acc)
    | none => pure (stop :: acc).reverse

/-- Decode as many items of a (possibly cut) stream step as possible. Returns items, whether the
    terminating 0 was seen, and the rest. Driver-only (no theorem uses it). -/
partial def decBlocksPartial (t : Ty) (bs : Bytes) (acc : List Val) : List Val × Bool × Bytes :=
  match decVar bs with
  | none => (acc.reverse, false, bs)
  | some (n, r) =>
    if n = 0 then (acc.reverse, true, r)
    else
      let rec items (k : Nat) (r : Bytes) (acc : List Val) : List Val × Bool × Bytes :=
        match k with
        | 0 => (acc, true, r)
        | k + 1 =>
          match dec t r with
          | none => (acc, false, r)
          | some (v, r') => items k r' (v :: acc)
      let (acc', okb, r') := items n r acc
      if okb then decBlocksPartial t r' acc' else (acc'.reverse, false, r')

/-- Decode the longest prefix of step values; the last element may be a partial stream. -/
partial def decStepsPartial : Proto → Bytes → List StepVal → List StepVal × Bool
  | [], bs, acc => (acc.reverse, bs.isEmpty)
  | s :: ss, bs, acc =>
    if s.isStream then
      let (items, fin, r) := decBlocksPartial s.ty bs []
      if fin then decStepsPartial ss r (.stream items :: acc)
      else ((StepVal.stream items :: acc).reverse, false)
    else
      match dec s.ty bs with
      | none => (acc.reverse, false)
      | some (v, r) => decStepsPartial ss r (.single v :: acc)

/-- Block sizes of every stream step of a complete stream (driver-only). -/
partial def blockSizes (t : Ty) (bs : Bytes) (acc : List Nat) : Option (List Nat × Bytes) :=
  match decVar bs with
  | none => none
  | some (n, r) =>
    if n = 0 then some (acc.reverse, r)
    else match decList (dec t) n r with
      | none => none
      | some (_, r') => blockSizes t r' (n :: acc)

partial def stepBlockSizes : Proto → Bytes → List (List Nat) → Option (List (List Nat))
  | [], _, acc => some acc.reverse
  | s :: ss, bs, acc =>
    if s.isStream then
      match blockSizes s.ty bs [] with
      | none => none
      | some (sizes, r) => stepBlockSizes ss r (sizes :: acc)
    else
      match dec s.ty bs with
      | none => none
      | some (_, r) => stepBlockSizes ss r ([] :: acc)

/-- Batch sizes the generated C++ `ReaderBase::ReadX(std::vector&)` loop delivers for a stream
    written with block partition `part`, read with capacity `cap` (model: `BS.readBatch`). -/
partial def modelBatches (s : BS) (cap : Nat) (acc : List Nat) : List Nat :=
  let (vs, s') := s.readBatch cap
  let acc' := if vs.isEmpty then acc else vs.length :: acc
  if s'.cbr = 0 then acc'.reverse else modelBatches s' cap acc'

def binOpOfString : String → Except String BinOp
  | "add" => pure .add | "sub" => pure .sub | "mul" => pure .mul | "div" => pure .div | "pow" => pure .pow
  | s => throw s!"bad op {s}"

/-- Expr JSON: ["lit",n] | ["var",i] | ["neg",e] | ["bin",op,l,r] -/
partial def exprOfJson (j : Json) : Except String Expr := do
  let a ← j.getArr?
  let tag ← (a[0]?.getD Json.null).getStr?
  let arg (i : Nat) : Json := a[i]?.getD Json.null
  match tag with
  | "lit" => pure (.lit (← (arg 1).getInt?))
  | "var" => pure (.var (← jNat (arg 1)))
  | "neg" => pure (.neg (← exprOfJson (arg 1)))
  | "bin" => pure (.bin (← binOpOfString (← (arg 1).getStr?)) (← exprOfJson (arg 2)) (← exprOfJson (arg 3)))
  | _ => throw s!"bad expr tag {tag}"

def targetOfString : String → Except String Target
  | "cpp" => pure .cpp | "python" => pure .python | "matlab" => pure .matlab
  | s => throw s!"bad target {s}"

/-- index of the first rejected op (none = all accepted) and the final state -/
def firstReject {σ ο : Type} (f : σ → ο → Option σ) : σ → List ο → Nat → Option Nat × σ
  | s, [], _ => (none, s)
  | s, op :: ops, i => match f s op with
    | none => (some i, s)
    | some s' => firstReject f s' ops (i + 1)

/-! JSON mapping: exchange format with the harness.
    numbers -> JSON numbers (integers); {"$f32":bits} {"$f64":bits}; {"$t":[prim,int]} date/time/datetime;
    {"$o":[[key,value]…]} objects (order kept); {"$m":[[k,v]…]} arrays that hold map entries. -/

def markerFmt : Json.Fmt where
  fmt p i := (1 : UInt8) :: strBytes s!"{p.name}:{i}"
  parse _ bs := match bs with
    | 1 :: rest => match (bytesStr rest).splitOn ":" with
      | [_, n] => n.toInt?
      | _ => none
    | _ => none

partial def jToExchange : Json.J → Lean.Json
  | .null => Lean.Json.null
  | .bool b => Lean.Json.bool b
  | .int i => ji i
  | .f32 b => Lean.Json.mkObj [("$f32", jn b)]
  | .f64 b => Lean.Json.mkObj [("$f64", jn b)]
  | .str (1 :: rest) =>
    match (bytesStr rest).splitOn ":" with
    | [p, n] => Lean.Json.mkObj [("$t", Lean.Json.arr #[Lean.Json.str p, ji (n.toInt?.getD 0)])]
    | _ => Lean.Json.str (bytesStr rest)
  | .str s => Lean.Json.str (bytesStr s)
  | .arr xs => Lean.Json.arr (xs.map jToExchange).toArray
  | .marr xs => Lean.Json.mkObj [("$m", Lean.Json.arr (xs.map jToExchange).toArray)]
  | .obj kvs => Lean.Json.mkObj [("$o", Lean.Json.arr (kvs.map fun (k, v) => Lean.Json.arr #[Lean.Json.str (bytesStr k), jToExchange v]).toArray)]

/-! serializer expressions (C14): ["prim",p] | ["none"] | ["enum",base,flags] | ["opt",e] | ["union",[e…],simple,[kinds…]]
    | ["vec",e] | ["fvec",e,n] | ["nd",e,rank] | ["fnd",e,[dims]] | ["dyn",e] | ["map",k,v] | ["rec",[e…]] -/
mutual
  partial def seToJson : Plan.SE → Lean.Json
    | .prim p => Lean.Json.arr #["prim", Lean.Json.str p.name]
    | .noneSer => Lean.Json.arr #["none"]
    | .enumSer b f => Lean.Json.arr #["enum", seToJson b, Lean.Json.bool f]
    | .optional e => Lean.Json.arr #["opt", seToJson e]
    | .union cs s k => Lean.Json.arr #["union", Lean.Json.arr (sesToJson cs).toArray, Lean.Json.bool s, Lean.Json.arr (k.map jn).toArray]
    | .vector e => Lean.Json.arr #["vec", seToJson e]
    | .fixedVector e n => Lean.Json.arr #["fvec", seToJson e, jn n]
    | .ndarray e n => Lean.Json.arr #["nd", seToJson e, jn n]
    | .fixedNdarray e d => Lean.Json.arr #["fnd", seToJson e, Lean.Json.arr (d.map jn).toArray]
    | .dynNdarray e => Lean.Json.arr #["dyn", seToJson e]
    | .map k v => Lean.Json.arr #["map", seToJson k, seToJson v]
    | .record fs => Lean.Json.arr #["rec", Lean.Json.arr (sesToJson fs).toArray]
  partial def sesToJson : Plan.SEs → List Lean.Json
    | .nil => []
    | .cons e r => seToJson e :: sesToJson r
end

mutual
  partial def seOfJson (j : Json) : Except String Plan.SE := do
    let a ← j.getArr?
    let tag ← (a[0]?.getD Json.null).getStr?
    let arg (i : Nat) : Json := a[i]?.getD Json.null
    match tag with
    | "prim" =>
      let s ← (arg 1).getStr?
      match primOfString s with
      | some p => pure (.prim p)
      | none => throw s!"unknown prim {s}"
    | "none" => pure .noneSer
    | "enum" => pure (.enumSer (← seOfJson (arg 1)) (← (arg 2).getBool?))
    | "opt" => pure (.optional (← seOfJson (arg 1)))
    | "union" =>
      let ks ← (arg 3).getArr?
      pure (.union (← sesOfJson (← (arg 1).getArr?).toList) (← (arg 2).getBool?) (← ks.toList.mapM jNat))
    | "vec" => pure (.vector (← seOfJson (arg 1)))
    | "fvec" => pure (.fixedVector (← seOfJson (arg 1)) (← jNat (arg 2)))
    | "nd" => pure (.ndarray (← seOfJson (arg 1)) (← jNat (arg 2)))
    | "fnd" => pure (.fixedNdarray (← seOfJson (arg 1)) (← (← (arg 2).getArr?).toList.mapM jNat))
    | "dyn" => pure (.dynNdarray (← seOfJson (arg 1)))
    | "map" => pure (.map (← seOfJson (arg 1)) (← seOfJson (arg 2)))
    | "rec" => pure (.record (← sesOfJson (← (arg 1).getArr?).toList))
    | _ => throw s!"bad serializer expression tag {tag}"
  partial def sesOfJson : List Json → Except String Plan.SEs
    | [] => pure .nil
    | j :: r => do pure (.cons (← seOfJson j) (← sesOfJson r))
end

/-! evolution (C05/C06): wire-type JSON with a trailing definition name on "enum" and "rec" nodes -/
def nameCode (s : String) : Nat := s.toUTF8.toList.foldl (fun acc b => acc * 256 + b.toNat) 1

def fieldsOfL : List (Nat × Evo.ETy) → Evo.EFields
  | [] => .nil
  | (n, t) :: r => .cons n t (fieldsOfL r)

def casesOfL : List (Option Evo.ETy) → Evo.ECases
  | [] => .nil
  | none :: r => .null (casesOfL r)
  | some t :: r => .cons t (casesOfL r)

partial def etyOfJson (j : Json) : Except String Evo.ETy := do
  let a ← j.getArr?
  let tag ← (a[0]?.getD Json.null).getStr?
  let arg (i : Nat) : Json := a[i]?.getD Json.null
  match tag with
  | "prim" =>
    let s ← (arg 1).getStr?
    match primOfString s with
    | some p => pure (.prim p)
    | none => throw s!"unknown prim {s}"
  | "enum" =>
    let s ← (arg 1).getStr?
    let some b := primOfString s | throw s!"unknown prim {s}"
    let fl ← (arg 2).getBool?
    let syms ← (← (arg 3).getArr?).toList.mapM fun e => do
      let p ← e.getArr?
      pure (nameCode (← (p[0]?.getD Json.null).getStr?), ← (p[1]?.getD Json.null).getInt?)
    pure (.enum (nameCode (← (arg 4).getStr?)) fl b syms)
  | "rec" =>
    let fs ← (← (arg 1).getArr?).toList.mapM fun e => do
      let p ← e.getArr?
      pure (nameCode (← (p[0]?.getD Json.null).getStr?), ← etyOfJson (p[1]?.getD Json.null))
    pure (.record (nameCode (← (arg 2).getStr?)) (fieldsOfL fs))
  | "opt" => pure (.optional (← etyOfJson (arg 1)))
  | "union" =>
    let hn ← (arg 1).getBool?
    let cs ← (← (arg 2).getArr?).toList.mapM fun e => do
      let p ← e.getArr?
      pure (some (← etyOfJson (p[1]?.getD Json.null)))
    pure (.union (casesOfL (if hn then none :: cs else cs)))
  | "vec" =>
    let t ← etyOfJson (arg 1)
    if (arg 2).isNull then pure (.vector t none) else pure (.vector t (some (← jNat (arg 2))))
  | "arr" =>
    let t ← etyOfJson (arg 1)
    let k ← (arg 2).getArr?
    match ← (k[0]?.getD Json.null).getStr? with
    | "dyn" => pure (.array t .dynamic)
    | "rank" => pure (.array t (.rank (← jNat (k[1]?.getD Json.null))))
    | "fixed" => pure (.array t (.fixed (← (← (k[1]?.getD Json.null).getArr?).toList.mapM jNat)))
    | kt => throw s!"bad array kind {kt}"
  | "map" => pure (.map (← etyOfJson (arg 1)) (← etyOfJson (arg 2)))
  | "tparam" => pure (.tparam (← jNat (arg 1)))
  | "inst" =>
    -- ["inst", generic name, [argument types by parameter position], [[field name, open field type]...]]
    let as ← (← (arg 2).getArr?).toList.mapM etyOfJson
    let fs ← (← (arg 3).getArr?).toList.mapM fun e => do
      let p ← e.getArr?
      pure (nameCode (← (p[0]?.getD Json.null).getStr?), ← etyOfJson (p[1]?.getD Json.null))
    pure (.inst (nameCode (← (arg 1).getStr?)) (fieldsOfL (as.zipIdx.map fun (t, i) => (i, t))) (fieldsOfL fs))
  | _ => throw s!"bad type tag {tag}"

def clsName : Evo.Cls → String
  | .same => "same" | .defChanged => "defChanged" | .silent => "silent" | .warn => "warn" | .error => "error"

def sevName : Evo.Sev → String
  | .ok => "ok" | .warn => "warn" | .err => "err"

def backendOfString : String → Except String Plan.Backend
  | "py" => pure .pyBinary | "matlab" => pure .matlabBinary | "pyndjson" => pure .pyNdjson | "cpp" => pure .cppBinary
  | s => throw s!"bad backend {s}"

def handle (j : Json) : Except String Json := do
  let op ← (← j.getObjVal? "op").getStr?
  match op with
  | "enc" =>
    let t ← tyOfJson (← j.getObjVal? "ty")
    let v ← valOfJson (← j.getObjVal? "val")
    pure (Json.mkObj [("hex", Json.str (toHex (enc t v))), ("typed", Json.bool (HasType t v))])
  | "dec" =>
    let t ← tyOfJson (← j.getObjVal? "ty")
    let h ← (← j.getObjVal? "hex").getStr?
    let some bs := ofHex h | throw "bad hex"
    match dec t bs with
    | none => pure (Json.mkObj [("error", "decode")])
    | some (v, r) => pure (Json.mkObj [("val", valToJson v), ("rest", jn r.length)])
  | "enc_proto" =>
    let p ← protoOfJson (← j.getObjVal? "proto")
    let parts ← (← j.getObjVal? "parts").getArr?
    let parts ← parts.toList.mapM fun e => do
      let a ← e.getArr?
      a.toList.mapM jNat
    let vals ← (← j.getObjVal? "vals").getArr?
    let vals ← vals.toList.mapM stepValOfJson
    let schema ← (← j.getObjVal? "schema").getStr?
    let bytes := encHeader (strBytes schema) ++ encSteps p parts vals
    pure (Json.mkObj [("hex", Json.str (toHex bytes)), ("typed", Json.bool (hasStepVals p vals))])
  | "dec_proto" =>
    let p ← protoOfJson (← j.getObjVal? "proto")
    let h ← (← j.getObjVal? "hex").getStr?
    let some bs := ofHex h | throw "bad hex"
    match decHeader bs with
    | none => pure (Json.mkObj [("error", "header")])
    | some (schema, body) =>
      match decSteps p (body.length + 2) body with
      | none => pure (Json.mkObj [("error", "body"), ("schema", Json.str (bytesStr schema))])
      | some (vs, r) =>
        pure (Json.mkObj [("schema", Json.str (bytesStr schema)),
          ("vals", Json.arr (vs.map stepValToJson).toArray), ("rest", jn r.length)])
  | "dec_proto_partial" =>
    let p ← protoOfJson (← j.getObjVal? "proto")
    let h ← (← j.getObjVal? "hex").getStr?
    let some bs := ofHex h | throw "bad hex"
    match decHeader bs with
    | none => pure (Json.mkObj [("error", "header")])
    | some (schema, body) =>
      let (vs, complete) := decStepsPartial p body []
      pure (Json.mkObj [("schema", Json.str (bytesStr schema)),
        ("vals", Json.arr (vs.map stepValToJson).toArray), ("complete", Json.bool complete)])
  | "block_sizes" =>
    let p ← protoOfJson (← j.getObjVal? "proto")
    let h ← (← j.getObjVal? "hex").getStr?
    let some bs := ofHex h | throw "bad hex"
    match decHeader bs with
    | none => pure (Json.mkObj [("error", "header")])
    | some (_, body) =>
      match stepBlockSizes p body [] with
      | none => pure (Json.mkObj [("error", "body")])
      | some sizes => pure (Json.mkObj [("sizes", Json.arr (sizes.map fun l => Json.arr (l.map jn).toArray).toArray)])
  | "model_batches" =>
    let part ← (← j.getObjVal? "part").getArr?
    let part ← part.toList.mapM jNat
    let cap ← jNat (← j.getObjVal? "cap")
    let n := part.foldl (· + ·) 0
    let items := (List.range n).map fun (i : Nat) => Val.int (Int.ofNat i)
    pure (Json.mkObj [("batches", Json.arr ((modelBatches (BS.init part items) cap []).map jn).toArray)])
  | "eval" =>
    let e ← exprOfJson (← j.getObjVal? "expr")
    let env ← (← j.getObjVal? "env").getArr?
    let env ← env.toList.mapM (·.getInt?)
    let ρ := fun i => env.getD i 0
    -- with "lo"/"hi": also the value computed in that fixed-width type and whether the hypothesis of
    -- fixed_width_evaluation_is_exact (everything in range) holds
    let extra ← match j.getObjVal? "lo", j.getObjVal? "hi" with
      | .ok lo, .ok hi => do
        let r : Rng := ⟨← lo.getInt?, ← hi.getInt?⟩
        pure [("in_range", Json.bool (e.inRange r ρ)), ("fixed_width", match e.evalW r ρ with | some v => ji v | none => Json.null)]
      | _, _ => pure []
    match e.eval ρ with
    | none => pure (Json.mkObj ([("undefined", Json.bool true)] ++ extra))
    | some v => pure (Json.mkObj ([("value", ji v)] ++ extra))
  | "lit_type" =>
    let n ← (← j.getObjVal? "n").getInt?
    match litType n with
    | some t => pure (Json.mkObj [("signed", Json.bool t.signed), ("bits", jn t.bits), ("contains", Json.bool (t.rng.contains n))])
    | none => pure (Json.mkObj [("rejected", Json.bool true)])
  | "paren" =>
    let tgt ← targetOfString (← (← j.getObjVal? "target").getStr?)
    let op ← binOpOfString (← (← j.getObjVal? "op").getStr?)
    let child ← binOpOfString (← (← j.getObjVal? "child").getStr?)
    pure (Json.mkObj [("left", Json.bool (emitParenLeft tgt op child)), ("right", Json.bool (emitParenRight tgt op child))])
  | "collect" =>
    let pk ← (← j.getObjVal? "world").getArr?
    let pk ← pk.toList.mapM fun e => do
      let ns ← jNat (← e.getObjVal? "ns")
      let imps ← (← e.getObjVal? "imports").getArr?
      let imps ← imps.toList.mapM jNat
      pure (Imports.Pkg.mk ns imps)
    let limit ← jNat (← j.getObjVal? "limit")
    let root ← jNat (← j.getObjVal? "root")
    let w : Imports.World := fun d => pk[d]?
    match Imports.load w limit root with
    | .ok c => pure (Json.mkObj [("verdict", "ok"), ("namespaces", Json.arr (c.map (fun x => jn x.1)).toArray)])
    | .error e =>
      let s := match e with
        | .missing => "missing" | .cycle => "cycle" | .conflict => "conflict" | .depth => "depth"
      pure (Json.mkObj [("verdict", Json.str s)])
  | "proto_run" =>
    let machine ← (← j.getObjVal? "machine").getStr?
    let shape ← (← j.getObjVal? "shape").getArr?
    let shape ← shape.toList.mapM (·.getBool?)
    let ops ← (← j.getObjVal? "ops").getArr?
    let tok (o : Json) : Except String (String × Nat × Bool) := do
      let a ← o.getArr?
      let t ← (a[0]?.getD Json.null).getStr?
      let i := ((a[1]?.getD (Json.num 0)).getNat?).toOption.getD 0
      let b := ((a[2]?.getD (Json.bool false)).getBool?).toOption.getD false
      pure (t, i, b)
    let toks ← ops.toList.mapM tok
    let fin (r : Option Nat × Nat) : Json :=
      Json.mkObj [("reject", match r.1 with | some i => jn i | none => Json.null), ("state", jn r.2)]
    match machine with
    | "cppW" | "pyW" =>
      -- "f": a write call whose implementation raises (ProtoFail); without "f" the machines are cppW / pyW themselves
      let wops ← toks.mapM fun (t, i, _) => match t with
        | "w" => pure (Proto.WOpF.op (.write i)) | "e" => pure (Proto.WOpF.op (.endS i)) | "c" => pure (Proto.WOpF.op .close)
        | "f" => pure (Proto.WOpF.fail i)
        | _ => throw s!"bad wop {t}"
      pure (fin (firstReject (if machine == "cppW" then Proto.cppWF shape else Proto.pyWF shape) 0 wops 0))
    | "cppR" =>
      let rops ← toks.mapM fun (t, i, b) => match t with
        | "r" => pure (Proto.ROp.read i b) | "B" => pure (Proto.ROp.batch i b) | "c" => pure Proto.ROp.close
        | _ => throw s!"bad rop {t}"
      pure (fin (firstReject (Proto.cppR shape) 0 rops 0))
    | "pyR" =>
      let rops ← toks.mapM fun (t, i, _) => match t with
        | "r" => pure (Proto.PROp.read i) | "x" => pure (Proto.PROp.exhaust i) | "p" => pure (Proto.PROp.abandon i) | "c" => pure Proto.PROp.close
        | _ => throw s!"bad prop {t}"
      let r := firstReject (Proto.pyR shape) (0, false) rops 0
      pure (fin (r.1, r.2.1))
    | _ => throw s!"bad machine {machine}"
  | "plan_of_schema" =>
    let txt ← (← j.getObjVal? "schema").getStr?
    match Json.parse txt with
    | .error e => pure (Json.mkObj [("error", Json.str s!"schema is not JSON: {e}")])
    | .ok sj =>
      match Schema.planOfSchema sj with
      | .error e => pure (Json.mkObj [("error", Json.str e)])
      | .ok p => pure (Json.mkObj [("proto", Json.arr (p.map fun st => Json.mkObj [("name", Json.str st.name),
          ("ty", Schema.tyToJson st.ty), ("stream", Json.bool st.isStream)]).toArray)])
  | "toj_proto" =>
    -- the NDJSON lines (exchange form) the documented mapping prescribes for a protocol's values
    let p ← protoOfJson (← j.getObjVal? "proto")
    let vals ← (← j.getObjVal? "vals").getArr?
    let vals ← vals.toList.mapM stepValOfJson
    let lines := (p.zip vals).flatMap fun (st, sv) =>
      match sv with
      | .single v => [Lean.Json.arr #[Lean.Json.str st.name, jToExchange (Json.toJ markerFmt st.ty v)]]
      | .stream items => items.map fun v => Lean.Json.arr #[Lean.Json.str st.name, jToExchange (Json.toJ markerFmt st.ty v)]
    -- self-check of the model: fromJ (toJ v) = v on this input
    let rt := (p.zip vals).all fun (st, sv) =>
      let ok (v : Val) : Bool := match Json.fromJ markerFmt st.ty (Json.toJ markerFmt st.ty v) with
        | some v' => toString (valToJson v').compress == toString (valToJson v).compress
        | none => false
      match sv with
      | .single v => ok v
      | .stream items => items.all ok
    -- the hypothesis of json_round_trip, evaluated on this protocol's types
    let wf := p.all fun st => Json.WF st.ty
    pure (Json.mkObj [("lines", Lean.Json.arr lines.toArray), ("model_round_trip", Json.bool rt), ("wf", Json.bool wf)])
  | "emit" =>
    -- the serializer expression each back end prints for every step of a protocol, and whether the
    -- plan it denotes is the plan of the type (evaluated instance of every_backend_denotes_the_plan)
    let p ← protoOfJson (← j.getObjVal? "proto")
    let b ← backendOfString (← (← j.getObjVal? "backend").getStr?)
    pure (Json.mkObj [("steps", Lean.Json.arr (p.map fun st => Json.mkObj [("name", Json.str st.name),
      ("stream", Json.bool st.isStream), ("se", seToJson (Plan.emit b st.ty)),
      ("plan", Schema.tyToJson (Plan.erase st.ty)),
      ("denotes_plan", Json.bool (match Plan.denote b (Plan.emit b st.ty) with
        | some t => toString (Schema.tyToJson t).compress == toString (Schema.tyToJson (Plan.erase st.ty)).compress
        | none => false))]).toArray)])
  | "denote" =>
    -- the plan a (generated) serializer expression denotes, and the bytes a value gets under it
    let b ← backendOfString (← (← j.getObjVal? "backend").getStr?)
    let e ← seOfJson (← j.getObjVal? "se")
    match Plan.denote b e with
    | none => pure (Json.mkObj [("plan", Json.null)])
    | some t =>
      let hex ← match j.getObjVal? "val" with
        | .ok vj => do pure (Json.str (toHex (enc t (← valOfJson vj))))
        | .error _ => pure Json.null
      pure (Json.mkObj [("plan", Schema.tyToJson t), ("hex", hex)])
  | "matlab_rows" =>
    -- the method tables of the MATLAB base classes of a protocol shape (which steps are streams)
    let shape ← (← (← j.getObjVal? "shape").getArr?).toList.mapM (·.getBool?)
    let kindS : Proto.MKind → String
      | .write => "write" | .endS => "endS" | .read => "read" | .has => "has" | .close => "close"
    let enc (rs : List Proto.MRow) : Json :=
      Json.arr (rs.map fun r => Json.arr #[Json.str (kindS r.kind), jn r.step, jn r.guard, match r.next with | some n => jn n | none => Json.null]).toArray
    pure (Json.mkObj [("writer", enc (Proto.matWriterRows shape)), ("reader", enc (Proto.matReaderRows shape))])
  | "namespaces" =>
    -- parsePackageNamespaces + flattenNamespaces over a loaded import graph given by namespace: {"graph": [[ns, [imported ns, ...]], ...], "root": ns}
    let g ← (← j.getObjVal? "graph").getArr?
    let pairs ← g.toList.mapM fun e => do
      let a ← e.getArr?
      let n ← (a[0]?.getD Json.null).getNat?
      let is ← (← (a[1]?.getD Json.null).getArr?).toList.mapM (·.getNat?)
      pure (n, is)
    let G : Nat → List Nat := fun n => match pairs.find? (fun e => e.1 == n) with | some e => e.2 | none => []
    let root ← (← j.getObjVal? "root").getNat?
    let fuel := pairs.length + 2
    let ps := Namespaces.parseNs G fuel root []
    let refs : Nat → List Nat := fun n => (Namespaces.get ps n).getD []
    let order := Namespaces.flatten refs fuel root []
    -- the namespaces each namespace can refer to (Resolve.visible over the References just computed)
    let vis := ps.map fun e => Json.arr #[jn e.1, Json.arr ((Resolve.visible refs fuel e.1).map jn).toArray]
    pure (Json.mkObj [("order", Json.arr (order.map jn).toArray),
                      ("references", Json.arr (ps.map fun e => Json.arr #[jn e.1, Json.arr (e.2.map jn).toArray]).toArray),
                      ("visible", Json.arr vis.toArray)])
  | "write_if_needed" =>
    -- Det.writeIfNeeded on the file contents the Go harness builds (same byte pattern)
    let pat (n : Nat) : List UInt8 := (List.range n).map fun i => UInt8.ofNat ((i * 31 + i / 4096 * 7 + 11) % 251)
    let oldSize ← (← j.getObjVal? "old_size").getInt?
    let newSize ← (← j.getObjVal? "new_size").getNat?
    let flip ← (← j.getObjVal? "flip").getInt?
    let content := (pat newSize).mapIdx fun i b => if flip ≥ 0 && i == flip.toNat then b ^^^ 0x5a else b
    let fs : Det.Fs := if oldSize < 0 then [] else [(1, pat oldSize.toNat)]
    let r := Det.writeIfNeeded (fs, []) (1, content)
    pure (Json.mkObj [("touched", Json.bool (!r.2.isEmpty)), ("content_ok", Json.bool (r.1.get 1 == some content))])
  | "parse_type" =>
    -- the shorthand text of a type through the scanner and the recursive-descent parser of the model
    let text ← (← j.getObjVal? "text").getStr?
    match TypeParser.parseText text with
    | .unmodelled => pure (Json.mkObj [("res", "unmodelled")])
    | .error => pure (Json.mkObj [("res", "error")])
    | .tree t =>
      -- parse_pr on the tree just built: printing it and parsing the tokens gives the same tree
      let again := match TypeParser.parse (TypeParser.pr t) with
        | some t' => TypeParser.sexp t' == TypeParser.sexp t
        | none => false
      pure (Json.mkObj [("res", "tree"), ("tree", TypeParser.sexp t), ("canon", Json.bool (TypeParser.canon t)), ("reparsed", Json.bool again),
                        ("t", Syntax.tToJson (Syntax.convS t))])
  | "syntax" =>
    -- the tree the front end builds for a YAML type node (raw and as consumers see it), and whether the
    -- node is a spelling of the given surface type (hypothesis of spellings_build_the_same_tree)
    let y ← Syntax.yOfJson (← j.getObjVal? "y")
    let raw := match Syntax.convY y with
      | some t => Syntax.tToJson t
      | none => Json.null
    let sem := match Syntax.sem y with
      | some t => Syntax.tToJson t
      | none => Json.null
    let sp ← match j.getObjVal? "sur" with
      | .ok sj => do
        let t ← Syntax.surOfJson sj
        pure (Json.mkObj [("is_spelling", Json.bool (Syntax.isSpelling t y)), ("tree_of_sur", Syntax.tToJson (Syntax.tree t))])
      | .error _ => pure Json.null
    pure (Json.mkObj [("raw", raw), ("sem", sem), ("sur", sp)])
  | "evo_proto" =>
    -- verdict (ok / warn / err) of a new protocol against a previous version of it; "new_defs": the record
    -- and enum definitions of the new version (nodes carry their names)
    let parse (j : Json) : Except String (List Evo.EStep) := do
      (← j.getArr?).toList.mapM fun e => do
        pure { name := nameCode (← (← e.getObjVal? "name").getStr?), ty := ← etyOfJson (← e.getObjVal? "ty"),
               stream := ← (← e.getObjVal? "stream").getBool? }
    let newS ← parse (← j.getObjVal? "new")
    let oldS ← parse (← j.getObjVal? "old")
    let defs ← (← (← j.getObjVal? "new_defs").getArr?).toList.mapM etyOfJson
    let env : Evo.Env := defs.filterMap fun d => match d with
      | .record n fs => some (n, .record n fs)
      | .enum n fl b sy => some (n, .enum n fl b sy)
      | .inst n a b => some (n, .inst n a b)
      | _ => none
    let classes := newS.filterMap fun st => match Evo.findStep oldS st.name with
      | some (_, o) => some (Json.arr #[Json.str (toString st.name), Json.str (clsName (Evo.cmp (Evo.depth st.ty + Evo.depth o.ty) st.ty o.ty))])
      | none => none
    pure (Json.mkObj [("verdict", Json.str (sevName (Evo.protoVerdict env newS oldS))), ("classes", Json.arr classes.toArray),
      ("wf_new", Json.bool (Evo.wfSteps newS)), ("wf_old", Json.bool (Evo.wfSteps oldS))])
  | "evo_conv" =>
    -- the value the generated C++ produces when it reads a previous version's value (reading = true) or
    -- writes a latest-version value for a previous version (reading = false)
    let reading ← (← j.getObjVal? "reading").getBool?
    let src ← etyOfJson (← j.getObjVal? "src")
    let dst ← etyOfJson (← j.getObjVal? "dst")
    let v ← valOfJson (← j.getObjVal? "val")
    let hyp := Json.bool (Evo.wfT src && Evo.fitsT src v)
    match Evo.conv reading (Evo.depth src + Evo.depth dst + 2) src dst v with
    | .ok x => pure (Json.mkObj [("ok", valToJson x), ("wf_fits", hyp)])
    | .err m => pure (Json.mkObj [("err", Json.str m)])
    | .unsupported m => pure (Json.mkObj [("unsupported", Json.str m)])
  | "topo" =>
    -- dependency sort of one namespace: "deps": [[mentions of definition 0], ...], definitions written in order 0..n-1
    let deps ← (← (← j.getObjVal? "deps").getArr?).toList.mapM fun e => do (← e.getArr?).toList.mapM jNat
    let roots ← (← (← j.getObjVal? "roots").getArr?).toList.mapM jNat
    let d : Topo.Deps := fun n => deps.getD n []
    match Topo.sort d (deps.length + 2) roots with
    | some l => pure (Json.mkObj [("order", Json.arr (l.map jn).toArray)])
    | none => pure (Json.mkObj [("cycle", Json.bool true)])
  | "ident" =>
    -- identifier derived by a back end from a case-converted name (reserved tables regenerated from source)
    let lang ← (← j.getObjVal? "lang").getStr?
    let suffix ← (← j.getObjVal? "suffix").getStr?
    let cased ← (← j.getObjVal? "cased").getStr?
    let table ← match lang with
      | "cpp" => pure Generated.reserved_cpp_codes | "python" => pure Generated.reserved_python_codes | "matlab" => pure Generated.reserved_matlab_codes
      | "cpp_types" => pure Generated.reserved_cpp_types_codes
      | l => throw s!"bad language {l}"
    let rule := ((j.getObjVal? "rule").toOption.bind (·.getStr?.toOption)).getD "plain"
    let r := if rule == "recursive" then Case.identRec table (Case.str suffix) (Case.str cased) else Case.ident table (Case.str suffix) (Case.str cased)
    pure (Json.mkObj [("ident", Json.str (String.ofList (r.map Char.ofNat)))])
  | "case" =>
    -- case conversions of formatting.go and the identifiers derived from them (reserved tables regenerated from source)
    let n ← (← j.getObjVal? "name").getStr?
    let s := Case.str n
    if !s.all Case.inAlphabet then pure (Json.mkObj [("unmodelled", Json.bool true)]) else
    let str (l : List Nat) : Json := Json.str (String.ofList (l.map Char.ofNat))
    let sn := Case.snake s; let us := Case.upperSnake s; let pa := Case.pascal s
    pure (Json.mkObj [("snake", str sn), ("upperSnake", str us), ("pascal", str pa),
      ("cppField", str (Case.identRec Generated.reserved_cpp_codes (Case.str "_field") sn)),
      ("pyField", str (Case.ident Generated.reserved_python_codes (Case.str "_") sn)),
      ("matlabField", str (Case.ident Generated.reserved_matlab_codes (Case.str "_") sn)),
      ("pyEnumValue", str (Case.ident Generated.reserved_python_codes (Case.str "_") us)),
      ("matlabEnumValue", str (Case.ident Generated.reserved_matlab_codes (Case.str "_") us)),
      ("cppEnumValue", str (Case.ident Generated.reserved_cpp_codes (Case.str "_value") (107 :: pa))),
      ("cppComputed", str (Case.ident Generated.reserved_cpp_codes (Case.str "_field") pa)),
      ("pyComputed", str (Case.ident Generated.reserved_python_codes (Case.str "_") sn)),
      ("cppWriterMethods", Json.arr ((Case.cppWriterMethods s true).map str).toArray),
      ("cppReaderMethods", Json.arr ((Case.cppReaderMethods s).map str).toArray)])
  | "members_ok" =>
    -- the member-name rules of the validator for one record / protocol: names in declaration order (fields, then computed fields)
    let names ← (← (← j.getObjVal? "names").getArr?).toList.mapM (·.getStr?)
    if !names.all (fun n => (Case.str n).all Case.inAlphabet) then pure (Json.mkObj [("unmodelled", Json.bool true)]) else
    pure (Json.mkObj [("ok", Json.bool (Case.membersOk (names.map Case.str) [] []))])
  | "narrow" =>
    let b ← jNat (← j.getObjVal? "bits")
    pure (Json.mkObj [("f32", jn (Json.narrow b))])
  | "widen" =>
    let b ← jNat (← j.getObjVal? "bits")
    pure (Json.mkObj [("f64", jn (Json.widen b))])
  | "cos" =>
    let lang ← (← j.getObjVal? "lang").getStr?
    let cap ← jNat (← j.getObjVal? "cap")
    let ops ← (← j.getObjVal? "ops").getArr?
    let ops ← ops.toList.mapM wopOfJson
    let step := if lang == "py" then Py.step else Cpp.step
    let init : COS := { cap := cap, buf := [], out := [], oob := false }
    let (final, lens) := ops.foldl (fun (st : COS × List Nat) op =>
      let s' := step st.1 op
      (s', s'.out.length :: st.2)) (init, [])
    pure (Json.mkObj [("lens", Json.arr (lens.reverse.map jn).toArray), ("hex", Json.str (toHex final.abs)),
      ("oob", Json.bool final.oob)])
  | "cis" =>
    let cap ← jNat (← j.getObjVal? "cap")
    let h ← (← j.getObjVal? "hex").getStr?
    let some bs := ofHex h | throw "bad hex"
    let ops ← (← j.getObjVal? "ops").getArr?
    let out ← runCis (CIS.init cap bs) ops.toList []
    pure (Json.mkObj [("out", Json.arr (out.map Json.str).toArray)])
  | "type_rules" =>
    -- the validator's per-node type rules on a surface type over primitive names (canonical names from the regenerated alias table)
    let t ← Syntax.surOfJson (← j.getObjVal? "sur")
    let canon : TypeRules.Canon := fun n => match Generated.primAliasTab.lookup n with
      | some (some p) => some p.name
      | _ => none
    let bad := (Rules.subterms t).filter fun s => !TypeRules.nodeOk canon s
    pure (Json.mkObj [("ok", Json.bool (TypeRules.typeOk canon t)), ("bad_nodes", jn bad.length)])
  | "enum_rules" =>
    -- validateEnums on one definition: "base": primitive name or null, "values": [[symbol, integer]...]
    let base ← match j.getObjVal? "base" with
      | .ok (.str b) => match primOfString b with
        | some p => pure (some p)
        | none => throw s!"unknown prim {b}"
      | _ => pure none
    let vals ← (← (← j.getObjVal? "values").getArr?).toList.mapM fun e => do
      let a ← e.getArr?
      pure ((← (a[0]?.getD Json.null).getStr?), (← (a[1]?.getD Json.null).getInt?))
    pure (Json.mkObj [("ok", Json.bool (TypeRules.enumOk base vals))])
  | "nd_read" =>
    -- the NDJSON step reader on a sequence of lines: "steps": [[name, isStream]...], "lines": [name...] (line i carries value i)
    let steps ← (← (← j.getObjVal? "steps").getArr?).toList.mapM fun e => do
      let a ← e.getArr?
      pure (nameCode (← (a[0]?.getD Json.null).getStr?), ← (a[1]?.getD Json.null).getBool?)
    let names ← (← (← j.getObjVal? "lines").getArr?).toList.mapM fun e => do pure (nameCode (← e.getStr?))
    let lines : List (Nat × Nat) := names.zipIdx
    match Nd.readSteps steps { lines := lines, unused := none } with
    | none => pure (Json.mkObj [("error", Json.bool true)])
    | some (vals, st) =>
      let enc (v : Nd.StepVal Nat) : Json := match v with
        | .single i => Json.arr #[jn i]
        | .stream is => Json.arr (is.map jn).toArray
      pure (Json.mkObj [("steps", Json.arr (vals.map enc).toArray),
        ("leftover", jn ((match st.unused with | some _ => 1 | none => 0) + st.lines.length))])
  | "pis" =>
    -- the Python CodedInputStream model on a byte string at a given buffer size
    let cap ← jNat (← j.getObjVal? "cap")
    let h ← (← j.getObjVal? "hex").getStr?
    let some bs := ofHex h | throw "bad hex"
    let ops ← (← j.getObjVal? "ops").getArr?
    let out ← runPis (PIS.init cap bs) ops.toList []
    pure (Json.mkObj [("out", Json.arr (out.map Json.str).toArray)])
  | _ => throw s!"unknown op {op}"

partial def loop (h : IO.FS.Stream) (out : IO.FS.Stream) : IO Unit := do
  let line ← h.getLine
  if line.isEmpty then return ()
  let reply :=
    match Json.parse line with
    | .error e => Json.mkObj [("fatal", Json.str s!"parse: {e}")]
    | .ok j =>
      match handle j with
      | .ok r => r
      | .error e => Json.mkObj [("fatal", Json.str e)]
  out.putStrLn reply.compress
  out.flush
  loop h out

def main : IO Unit := do
  loop (← IO.getStdin) (← IO.getStdout)
