#!/bin/sh
# Build the Lean project (models, proofs, property theorems, drivers). Offline.
set -e
cd "$(dirname "$0")/lean"
lake build YardlModel YardlProofs Props wiredrv
