#!/bin/sh
# Build the Lean project (models, proofs, property theorems, drivers). Offline.
set -e
cd "$(dirname "$0")"
# translator: regenerate lean/YardlGenerated from /repo's current source (also re-done by the checks that use it)
python3 harness/py/gen_tables.py
cd lean
lake build YardlModel YardlProofs Props wiredrv
