"""C15 — readers refuse streams of a different schema or format.

Proof: Props/C15.lean (header acceptance decision: own schema accepted, foreign schema / bad magic /
bad version / short header refused, headers self-delimiting).
Correspondence: the Lean decision `accept [own schema]` vs generated C++ and Python binary readers on
(a) systematically corrupted headers (every header byte x {bit flip, delete, insert, truncate}, sampled
inside long schemas), (b) streams of other protocols of the same package, (c) streams of a
single-edit neighbour package (same protocol name, one type/field/step changed). A refusal must come
before any value is handed out (the translator's output stays empty).
"""
import copy
import json
import os
import random

import codeclab
import modelgen
import vlib
from checks.c01 import _files, _errclass

THEOREMS = ["Yardl.C15.own_stream_accepted", "Yardl.C15.foreign_schema_refused", "Yardl.C15.header_injective",
            "Yardl.C15.bad_magic_refused", "Yardl.C15.short_header_refused", "Yardl.C15.bad_version_refused",
            "Yardl.C15.accept_sound"]


def run(report, tier, seed):
    quick = tier == "quick"
    report.rule = ("a case = one (stream, reader) pair; streams: valid reference streams with one header corruption, streams of "
                   "other protocols, streams of single-edit neighbour models; distinct = distinct (input bytes, reader); "
                   "all are non-trivial (the input differs from every stream the reader should accept)")
    lean_ok, _ = vlib.check_lean(report, "Props.C15", THEOREMS)
    if not lean_ok:
        report.violation("lean:Props.C15", {"theorem_or_correspondence": "Props.C15 does not build or audit",
                                            "log": (report.extra.get("lean_build_log") or report.extra.get("lean_axiom_log", ""))[-3000:]},
                         "no-failing-input-found")
    with vlib.Scratch("vf-c15-") as sc:
        ybin = vlib.build_yardl(sc)
        lean = vlib.LeanDriver("wiredrv")
        rng = random.Random(seed * 15485863 + 15)
        n = 2 if quick else 15
        labs = []
        for i in range(n):
            g = modelgen.Gen(seed * 100057 + i, allow_imports=False)
            pkg = g.gen_package(n_protocols=2)
            pkg2, edit = neighbour(pkg, rng)
            a = codeclab.Lab(sc, ybin, 2 * i, g, pkg=pkg)
            b = codeclab.Lab(sc, ybin, 2 * i + 1, modelgen.Gen(seed * 100057 + i + 500), pkg=pkg2)
            a.edit = b.edit = edit
            labs += [a, b]
        for j, (pa, pb, edit) in enumerate(directed_pairs()):
            # the first directed pair also carries the NDJSON header leg (generated NDJSON readers of both languages)
            a = codeclab.Lab(sc, ybin, 900 + 2 * j, modelgen.Gen(seed * 13 + j, json_safe=True), pkg=pa, ndjson=(j in (0, 2)))
            b = codeclab.Lab(sc, ybin, 901 + 2 * j, modelgen.Gen(seed * 13 + j + 77, json_safe=True), pkg=pb, ndjson=(j in (0, 2)))
            a.edit = b.edit = edit
            labs += [a, b]
        # several protocols of one package, their readers opened one after the other in one process (binary and NDJSON)
        mlab = codeclab.Lab(sc, ybin, 800, modelgen.Gen(seed * 13 + 800, json_safe=True, cpp_json_safe=True), pkg=several_protocols_package(), ndjson=True)
        import concurrent.futures
        with concurrent.futures.ThreadPoolExecutor(max_workers=4) as ex:
            list(ex.map(lambda l: l.prepare(), labs + [mlab]))
        if not mlab.ok:
            report.violation(f"{mlab.stage}:model", {"seed": seed, "model_index": mlab.idx, "error": mlab.err, "files": _files(mlab)}, "")
        else:
            _one_process(report, mlab, lean, seed, 2 if quick else 6)
        _same_name_in_import(report, sc, ybin, lean, seed)
        for i in range(0, len(labs), 2):
            a, b = labs[i], labs[i + 1]
            if not a.ok:
                report.violation(f"{a.stage}:model", {"seed": seed, "model_index": a.idx, "error": a.err, "files": _files(a)}, "")
                continue
            report.count("models")
            if a.idx < 900:
                _corrupt(report, a, lean, rng, quick, seed)
                _cross_protocol(report, a, lean, rng, seed)
            if b.ok:
                _cross_model(report, a, b, lean, rng, seed)
                _cross_model(report, b, a, lean, rng, seed)
                if a.ndjson:
                    _ndjson_leg(report, a, lean, rng, seed, [("neighbour." + n, b.schemas[n]) for n in b.protos])
                    _ndjson_leg(report, b, lean, rng, seed, [("neighbour." + n, a.schemas[n]) for n in a.protos])
            else:
                report.count("neighbour_rejected_by_yardl")
        lean.close()


# ----------------------------------------------------------------------------- single-edit neighbours

def neighbour(pkg, rng):
    """A copy of pkg with one wire-affecting edit to a protocol or to a record it uses."""
    p2 = copy.deepcopy(pkg)
    protos = p2.protocols()
    proto = rng.choice(protos)
    kind = rng.choice(["step_type", "swap_steps", "toggle_stream", "record_field", "add_step", "rename_step"])
    other = {"int32": "int64", "int64": "int32", "uint8": "int8", "string": "int32", "float32": "float64", "float64": "float32",
             "bool": "uint8", "uint64": "size", "size": "uint32"}
    if kind == "step_type":
        i = rng.randrange(len(proto["steps"]))
        n, t, st = proto["steps"][i]
        nt = ("prim", other.get(t[1], "int16")) if t[0] == "prim" else ("opt", ("prim", "int32")) if t[0] != "opt" else ("prim", "int32")
        proto["steps"][i] = (n, nt, st)
        return p2, f"{proto['name']}.{n}: type changed"
    if kind == "swap_steps" and len(proto["steps"]) >= 2:
        i = rng.randrange(len(proto["steps"]) - 1)
        proto["steps"][i], proto["steps"][i + 1] = proto["steps"][i + 1], proto["steps"][i]
        return p2, f"{proto['name']}: steps {i},{i+1} swapped"
    if kind == "toggle_stream":
        i = rng.randrange(len(proto["steps"]))
        n, t, st = proto["steps"][i]
        if modelgen.Gen(0).canon(p2, t) != ["prim", "bool"]:
            proto["steps"][i] = (n, t, not st)
            return p2, f"{proto['name']}.{n}: stream toggled"
    if kind == "record_field":
        recs = [d for d in p2.defs if d["kind"] == "record"]
        if recs:
            r = rng.choice(recs)
            j = rng.randrange(len(r["fields"]))
            fn, ft = r["fields"][j]
            if rng.random() < 0.5:
                r["fields"][j] = (fn + "x", ft)
                return p2, f"record {r['name']}.{fn}: renamed"
            r["fields"].append(("extraField", ("prim", "int32")))
            return p2, f"record {r['name']}: field added"
    if kind == "rename_step":
        i = rng.randrange(len(proto["steps"]))
        n, t, st = proto["steps"][i]
        proto["steps"][i] = (n + "x", t, st)
        return p2, f"{proto['name']}.{n}: renamed"
    proto["steps"].append(("z9", ("prim", "int32"), False))
    return p2, f"{proto['name']}: step added"


def directed_pairs():
    """Neighbour pairs whose single edit sits at a position reached only through a particular path:
    second instantiation of a generic, alias chain, union case, map value, vector item."""
    P = lambda n: ("prim", n)
    pairs = []

    def base():
        pkg = modelgen.Package("Dp")
        pkg.defs.append({"kind": "record", "name": "Box", "tparams": ["T"], "fields": [("v", ("tparam", "T")), ("n", P("int32"))]})
        pkg.defs.append({"kind": "record", "name": "Info", "tparams": [], "fields": [("a", P("int32")), ("b", P("string"))]})
        pkg.defs.append({"kind": "record", "name": "Reading", "tparams": [], "fields": [("level", P("int32")), ("t", P("float64"))]})
        pkg.defs.append({"kind": "alias", "name": "ReadingAlias", "tparams": [], "type": ("named", "Reading", [])})
        pkg.defs.append({"kind": "alias", "name": "Chain", "tparams": [], "type": ("named", "ReadingAlias", [])})
        return pkg
    shapes = {
        "second-generic-instantiation": [("h", ("named", "Box", [("named", "Info", [])]), False), ("s", ("named", "Box", [("named", "Reading", [])]), True)],
        "alias-chain": [("h", ("named", "Info", []), False), ("s", ("named", "Chain", []), True)],
        "union-case": [("s", ("union", True, [("uI", ("named", "Info", [])), ("uR", ("named", "Reading", []))]), True)],
        "map-value": [("s", ("map", P("string"), ("named", "Reading", [])), False)],
        "vector-item-in-generic-arg": [("h", ("named", "Box", [P("int32")]), False), ("s", ("named", "Box", [("vec", ("named", "Reading", []), None)]), False)],
    }
    for name, steps in shapes.items():
        a, b = base(), base()
        for pkg in (a, b):
            pkg.defs.append({"kind": "protocol", "name": "Pd", "steps": list(steps)})
        rec = [d for d in b.defs if d["name"] == "Reading"][0]
        rec["fields"][0] = ("level", P("uint32"))
        pairs.append((a, b, f"directed:{name}: Reading.level int32->uint32"))
    # enums: the base type and the integer values are part of the encoding; the same pairs also with documentation comments on every
    # definition, field, step and enum value (block-style YAML): comments never reach the schema, the base type and the values always do
    for documented in (False, True):
        for name, edit in (("enum-base", lambda e: e.update(base="int16")), ("enum-value", lambda e: e.update(values=[("idle", 0), ("body", 3), ("surface", 2)])),
                           ("flags-base", None)):
            a, b = base(), base()
            for pkg in (a, b):
                if name == "flags-base":
                    pkg.defs.append({"kind": "enum", "name": "Mode", "flags": True, "base": "uint8", "auto": False, "values": [("idle", 1), ("body", 2), ("surface", 4)]})
                else:
                    pkg.defs.append({"kind": "enum", "name": "Mode", "flags": False, "base": "uint8", "auto": False, "values": [("idle", 0), ("body", 1), ("surface", 2)]})
                pkg.defs.append({"kind": "record", "name": "Acq", "tparams": [], "fields": [("mode", ("named", "Mode", [])), ("n", P("int32"))]})
                pkg.defs.append({"kind": "protocol", "name": "Pd", "steps": [("h", ("named", "Mode", []), False), ("s", ("named", "Acq", []), True)]})
                if documented:
                    pkg.block, pkg.comment_lines = True, "doc"
            e = [d for d in b.defs if d["name"] == "Mode"][0]
            if edit:
                edit(e)
            else:
                e["base"] = "uint64"
            pairs.append((a, b, f"directed:{name}{'-documented' if documented else ''}: Mode {name} changed"))
    # types that differ only in a length or a dimension - a length of zero included: `T*0` has no count on the wire, `T*` has one
    P_ = lambda n: ("prim", n)
    type_pairs = [("vector-length-0-vs-none", ("vec", P_("int32"), 0), ("vec", P_("int32"), None)), ("vector-length-1-vs-none", ("vec", P_("int32"), 1), ("vec", P_("int32"), None)),
                  ("vector-length-0-vs-1", ("vec", P_("int32"), 0), ("vec", P_("int32"), 1)), ("array-rank-1-vs-dynamic", ("arr", P_("float32"), ("rank", 1, None)), ("arr", P_("float32"), ("dyn",))),
                  ("array-fixed-1-vs-rank-1", ("arr", P_("float32"), ("fixed", [1], None)), ("arr", P_("float32"), ("rank", 1, None)))]
    for name, ta, tb in type_pairs:
        a, b = base(), base()
        a.defs.append({"kind": "record", "name": "Frame", "tparams": [], "fields": [("samples", ta), ("n", P("int32"))]})
        b.defs.append({"kind": "record", "name": "Frame", "tparams": [], "fields": [("samples", tb), ("n", P("int32"))]})
        for pkg, t in ((a, ta), (b, tb)):
            pkg.defs.append({"kind": "protocol", "name": "Pd", "steps": [("h", t, False), ("s", ("named", "Frame", []), True)]})
        pairs.append((a, b, f"directed:{name}"))
    return pairs


# ----------------------------------------------------------------------------- runs

def _ref(lab, lean, pname, g):
    pj = lab.protos[pname]
    vals = g.gen_step_vals(pj, stream_len=g.rng.choice([0, 1, 2]), size=2)
    parts = [g.gen_partition(len(v[1])) if v[0] == "stream" else [] for v in vals]
    ref = bytes.fromhex(lean.ask({"op": "enc_proto", "proto": pj, "parts": parts, "vals": vals, "schema": lab.schemas[pname]})["hex"])
    return ref


def _feed(report, lab, lean, pname, data, what, seed, expect_refusal=True, extra=None):
    """Feed `data` to the C++ and Python readers of protocol pname of `lab`."""
    inp = lab.tmp(".in.bin")
    open(inp, "wb").write(data)
    schema = lab.schemas[pname].encode()
    # model decision
    hdr = lean.ask({"op": "dec_proto", "proto": [], "hex": data.hex()})
    model_accepts = ("error" not in hdr or hdr.get("error") == "body") and hdr.get("schema") == lab.schemas[pname]
    res = {}
    outc = lab.tmp(".cpp.out")
    nstreams = sum(1 for s in lab.protos[pname] if s["stream"])
    rc, err = lab.run_cpp(pname, "b", "b", inp, outc, [2] * nstreams, timeout=30)
    res["cpp"] = (rc, err, outc)
    outp = lab.tmp(".py.out")
    pr = lab.run_py([{"proto": pname, "infmt": "b", "outfmt": "b", "in": inp, "out": outp}])[0]
    res["py"] = (pr["rc"], pr["exc"], outp)
    for lang, (rc, err, out) in res.items():
        report.case(distinct_key=(data.hex()[:4000], len(data), pname, lab.idx, lang),
                    sample={"what": what, "reader": pname, "lang": lang, "model_accepts": model_accepts} if report.evaluations % 200 == 0 else None)
        report.count(f"{what.split(':')[0]}.{lang}")
        replay = {"what": what, "reader_protocol": pname, "lang": lang, "model_index": lab.idx, "seed": seed,
                  "input_hex": data.hex() if len(data) < 8000 else "(omitted)", "files": _files(lab), "rc": rc, "stderr": err}
        if extra:
            replay.update(extra)
        size = os.path.getsize(out) if os.path.exists(out) else 0
        if model_accepts:
            report.count("model_accepts")
            continue   # header acceptable: what happens next is C01/C16 business
        if rc == -9:
            report.violation(f"{lang}:hang", replay, "")
        elif rc == 0:
            report.violation(f"{lang}:foreign-stream-accepted:{what.split(':')[0]}", replay, "reader completed normally on a stream it must refuse")
        elif rc != 3:
            report.violation(f"{lang}:crash:{rc}", replay, "")
        elif size != 0:
            report.violation(f"{lang}:value-delivered-before-refusal:{what.split(':')[0]}", dict(replay, output_bytes=size),
                             "the reader got past the header check of a stream it must refuse")


def _corrupt(report, lab, lean, rng, quick, seed):
    g = lab.gen
    pname = rng.choice(list(lab.protos))
    ref = _ref(lab, lean, pname, g)
    slen = len(lab.schemas[pname].encode())
    hdr_len = 9 + _varlen(slen) + slen
    positions = list(range(0, min(9 + _varlen(slen) + 6, hdr_len)))
    positions += sorted(rng.sample(range(positions[-1] + 1, hdr_len), min(10 if quick else 80, hdr_len - positions[-1] - 1)))
    # the format version (bytes 5..8, little endian): every value other than the one version that exists is unknown - smaller ones, larger
    # ones, values that are negative when read as signed, values that are 1 in another byte order
    for v in (0, 2, 3, 255, 256, 257, 0x01000000, 0x7FFFFFFF, 0x80000000, 0x80000001, 0xFFFFFFFF):
        b = bytearray(ref)
        b[5:9] = v.to_bytes(4, "little")
        _feed(report, lab, lean, pname, bytes(b), f"corrupt:version={v}@5", seed)
    for pos in positions:
        for kind in ("flip", "delete", "insert", "truncate"):
            b = bytearray(ref)
            if kind == "flip":
                b[pos] ^= 1 << rng.randrange(8)
            elif kind == "delete":
                del b[pos]
            elif kind == "insert":
                b.insert(pos, rng.randrange(256))
            else:
                b = b[:pos]
            _feed(report, lab, lean, pname, bytes(b), f"corrupt:{kind}@{pos}", seed)


# ------------------------------------------------------------------------------ NDJSON headers

# header["yardl"]["version"] forms other than the number one: every one of them is an unknown format version
NDJSON_BAD_VERSIONS = ["0", "2", "-1", "1.5", "1.25e0", "0.9999999999999999", "\"1\"", "null", "[1]", "{\"v\":1}", "4294967297", "18446744069414584321", "1e40", "false"]


def _ndjson_leg(report, lab, lean, rng, seed, others):
    """corrupted / foreign NDJSON headers against the generated C++ and Python NDJSON readers. The rule (docs/reference/ndjson.md,
    header.h, _ndjson.py): the first line is a JSON object {"yardl": {"version": 1, "schema": <own schema>}}."""
    import jsonlab
    for pname, pj in lab.protos.items():
        own = json.loads(lab.schemas[pname])
        vals = lab.gen.gen_step_vals(pj, stream_len=1, size=2)
        tj = lean.ask({"op": "toj_proto", "proto": pj, "vals": vals})
        body = jsonlab.ndjson_text(lab.schemas[pname], [(ln[0], ln[1]) for ln in tj["lines"]]).split("\n", 1)[1]
        dumps = lambda o: json.dumps(o, separators=(",", ":"), ensure_ascii=False)
        good = dumps({"yardl": {"version": 1, "schema": own}})
        cases = [("valid", good, False)]
        for v in NDJSON_BAD_VERSIONS:
            cases.append((f"version:{v}", good.replace('"version":1,', f'"version":{v},', 1), True))
        cases.append(("version:missing", dumps({"yardl": {"schema": own}}), True))
        cases.append(("schema:missing", dumps({"yardl": {"version": 1}}), True))
        cases.append(("schema:null", dumps({"yardl": {"version": 1, "schema": None}}), True))
        cases.append(("schema:as-string", dumps({"yardl": {"version": 1, "schema": lab.schemas[pname]}}), True))
        cases.append(("yardl:missing", dumps({"version": 1, "schema": own}), True))
        cases.append(("yardl:renamed", dumps({"Yardl": {"version": 1, "schema": own}}), True))
        cases.append(("header:array", dumps([{"yardl": {"version": 1, "schema": own}}]), True))
        cases.append(("header:truncated", good[:len(good) // 2], True))
        cases.append(("header:empty-line", "", True))
        cases.append(("header:not-json", "yardl " + good, True))
        for oname, oschema in others:
            if json.loads(oschema) != own:
                cases.append((f"schema:foreign:{oname}", dumps({"yardl": {"version": 1, "schema": json.loads(oschema)}}), True))
        # one value inside the schema changed (a near-identical schema)
        txt = dumps(own)
        for old, new in (('"int32"', '"int64"'), ('"float32"', '"float64"'), ('"string"', '"int8"'), ('"name":"', '"name":"x')):
            if old in txt:
                cases.append((f"schema:one-token:{old}", dumps({"yardl": {"version": 1, "schema": json.loads(txt.replace(old, new, 1))}}), True))
        nstreams = sum(1 for s in pj if s["stream"])
        pyjobs, pend = [], []
        for what, header, refuse in cases:
            inp = lab.tmp(".hdr.ndjson")
            open(inp, "w", encoding="utf-8").write(header + "\n" + body)
            outc, outp = lab.tmp(".cpp.out"), lab.tmp(".py.out")
            rc, err = lab.run_cpp(pname, "j", "b", inp, outc, [2] * nstreams, timeout=30)
            _judge_ndjson(report, lab, pname, "cpp", what, header, refuse, rc, err, outc, seed)
            pyjobs.append({"proto": pname, "infmt": "j", "outfmt": "b", "in": inp, "out": outp})
            pend.append((what, header, refuse, outp))
        for (what, header, refuse, outp), res in zip(pend, lab.run_py(pyjobs)):
            _judge_ndjson(report, lab, pname, "py", what, header, refuse, res["rc"], res["exc"], outp, seed)


def _judge_ndjson(report, lab, pname, lang, what, header, refuse, rc, err, out, seed):
    report.case(distinct_key=("ndjson", header[:3000], pname, lab.idx, lang))
    report.count(f"ndjson-header.{what.split(':')[0]}.{lang}")
    replay = {"what": "ndjson-header:" + what, "reader_protocol": pname, "lang": lang, "model_index": lab.idx, "seed": seed,
              "header_line": header[:3000], "files": _files(lab), "rc": rc, "stderr": err}
    size = os.path.getsize(out) if os.path.exists(out) else 0
    if not refuse:
        if rc != 0:
            report.violation(f"{lang}:ndjson-own-stream-refused", replay, "the reader refused a stream with its own header")
        return
    if rc == -9:
        report.violation(f"{lang}:hang", replay, "")
    elif rc == 0:
        report.violation(f"{lang}:foreign-ndjson-stream-accepted:{what.split(':')[0]}:{what.split(':')[1] if what.startswith('version') else ''}", replay,
                         "the NDJSON reader completed normally on a stream whose header it must refuse")
    elif rc != 3:
        report.violation(f"{lang}:crash:{rc}", replay, "")
    elif size != 0:
        report.violation(f"{lang}:value-delivered-before-refusal:ndjson-{what.split(':')[0]}", dict(replay, output_bytes=size),
                         "the NDJSON reader got past the header check of a stream it must refuse")


def several_protocols_package(namespace="Multi"):
    pkg = modelgen.Package(namespace)
    P = lambda n: ("prim", n)
    pkg.defs.append({"kind": "record", "name": "Rec", "tparams": [], "fields": [("id", P("int32")), ("label", P("string")), ("w", ("opt", P("float64")))]})
    pkg.defs.append({"kind": "protocol", "name": "PA", "steps": [("a", P("int32"), False), ("s", P("string"), True)]})
    pkg.defs.append({"kind": "protocol", "name": "PB", "steps": [("a", P("int64"), False), ("s", P("string"), True)]})
    pkg.defs.append({"kind": "protocol", "name": "PC", "steps": [("r", ("named", "Rec", []), True), ("n", P("uint8"), False)]})
    pkg.defs.append({"kind": "protocol", "name": "PD", "steps": [("r", ("named", "Rec", []), True), ("n", P("uint16"), False)]})
    return pkg


def _one_process(report, lab, lean, seed, rounds):
    """readers (and writers) of several protocols used one after the other in ONE process: each accepts its own stream and
    refuses the others', whatever was opened before it (nothing about the expected schema may be remembered across readers)"""
    import jsonlab
    g = lab.gen
    names = list(lab.protos)
    refs = {}
    for pname in names:
        pj = lab.protos[pname]
        vals = g.gen_step_vals(pj, stream_len=2, size=2)
        parts = [g.gen_partition(len(v[1])) if v[0] == "stream" else [] for v in vals]
        b = lab.tmp(f".{pname}.bin")
        open(b, "wb").write(bytes.fromhex(lean.ask({"op": "enc_proto", "proto": pj, "parts": parts, "vals": vals, "schema": lab.schemas[pname]})["hex"]))
        tj = lean.ask({"op": "toj_proto", "proto": pj, "vals": vals})
        j = lab.tmp(f".{pname}.ndjson")
        open(j, "w", encoding="utf-8").write(jsonlab.ndjson_text(lab.schemas[pname], [(ln[0], ln[1]) for ln in tj["lines"]]))
        refs[pname] = {"b": b, "j": j}
    for rnd in range(rounds):
        order = [(r, src) for r in names for src in names]
        g.rng.shuffle(order)
        order = order[:10] + [(n, n) for n in names]          # mixed, then every reader once more on its own stream
        for fmt in ("b", "j"):
            jobs, expect = [], []
            for reader, src in order:
                out = lab.tmp(f".multi.{fmt}.out")
                nstreams = sum(1 for s in lab.protos[reader] if s["stream"])
                jobs.append((reader, fmt, "b", refs[src][fmt], out, [2] * nstreams))
                expect.append(0 if lab.schemas[reader] == lab.schemas[src] else 3)
            rcs, err = lab.run_cpp_multi(jobs)
            for (reader, src), job, want, rc in zip(order, jobs, expect, rcs):
                report.case(distinct_key=("one-process", fmt, reader, src, rnd, tuple(order)))
                report.count(f"one-process.{'own' if want == 0 else 'foreign'}.{'binary' if fmt == 'b' else 'ndjson'}.cpp")
                replay = {"what": "several readers in one process", "format": "binary" if fmt == "b" else "ndjson", "reader_protocol": reader, "stream_of": src,
                          "order": [f"{s}->{r}" for r, s in order], "rcs": rcs, "stderr": err, "files": _files(lab), "seed": seed}
                size = os.path.getsize(job[4]) if os.path.exists(job[4]) else 0
                if want == 0 and rc != 0:
                    report.violation(f"cpp:own-stream-refused-after-other-readers:{'binary' if fmt == 'b' else 'ndjson'}", replay,
                                     "a reader refused a stream with its own schema after readers of other protocols had been opened in the same process")
                    break
                if want == 3 and rc == 0:
                    report.violation(f"cpp:foreign-stream-accepted-after-other-readers:{'binary' if fmt == 'b' else 'ndjson'}", replay,
                                     "a reader accepted the stream of another protocol after readers of other protocols had been opened in the same process")
                    break
                if want == 3 and rc == 3 and size != 0:
                    report.violation("cpp:value-delivered-before-refusal:one-process", dict(replay, output_bytes=size), "")
                    break
                if rc not in (0, 3):
                    report.violation(f"cpp:crash:{rc}", replay, "")
                    break
    # Python: the same in one interpreter (pyxlate runs all jobs of a call in one process)
    for fmt in ("b", "j"):
        order = [(r, src) for r in names for src in names]
        g.rng.shuffle(order)
        pyjobs = [{"proto": r, "infmt": fmt, "outfmt": "b", "in": refs[src][fmt], "out": lab.tmp(".multi.py.out")} for r, src in order]
        for (reader, src), job, res in zip(order, pyjobs, lab.run_py(pyjobs)):
            want = 0 if lab.schemas[reader] == lab.schemas[src] else 3
            report.case(distinct_key=("one-process-py", fmt, reader, src))
            report.count(f"one-process.{'own' if want == 0 else 'foreign'}.{'binary' if fmt == 'b' else 'ndjson'}.py")
            replay = {"what": "several readers in one process", "format": fmt, "reader_protocol": reader, "stream_of": src, "rc": res["rc"], "exc": res["exc"],
                      "files": _files(lab), "seed": seed}
            if want == 0 and res["rc"] != 0:
                report.violation("py:own-stream-refused-after-other-readers", replay, "")
            elif want == 3 and res["rc"] == 0:
                report.violation("py:foreign-stream-accepted-after-other-readers", replay, "")


def _same_name_in_import(report, sc, ybin, lean, seed):
    """a package that declares a previous version (identical to itself) and imports a package with a protocol of the same simple name whose steps differ
    only in ways evolution would accept (uint -> ulong, float -> double): the imported protocol is another protocol, not a previous version of
    this one - its streams must be refused, by the readers of both languages"""
    import copy
    P = lambda n: ("prim", n)
    lib = modelgen.Package("Lib")
    lib.defs.append({"kind": "record", "name": "Marker", "tparams": [], "fields": [("t", P("uint32"))]})
    lib.defs.append({"kind": "protocol", "name": "Waveform", "steps": [("sampleCount", P("uint32"), False), ("samples", P("float32"), True)]})
    app = modelgen.Package("App")
    app.imports.append(lib)
    app.defs.append({"kind": "record", "name": "Note", "tparams": [], "fields": [("text", P("string")), ("m", ("named", "Lib.Marker", []))]})
    app.defs.append({"kind": "protocol", "name": "Waveform", "steps": [("sampleCount", P("uint64"), False), ("samples", P("float64"), True)]})
    app.defs.append({"kind": "protocol", "name": "Notes", "steps": [("m", ("named", "Note", []), True)]})
    a = codeclab.Lab(sc, ybin, 700, modelgen.Gen(seed * 13 + 700), pkg=app)
    a.old_pkgs = [("v1", copy.deepcopy(app))]
    libl = codeclab.Lab(sc, ybin, 701, modelgen.Gen(seed * 13 + 701), pkg=lib, want_cpp=False)
    a.prepare()
    libl.prepare()
    for l in (a, libl):
        if not l.ok:
            report.violation(f"{l.stage}:model", {"seed": seed, "model_index": l.idx, "error": l.err, "files": _files(l)}, "")
            return
    report.count("models.same-name-in-import")
    for pname in ("Waveform",):
        # its own stream is accepted ...
        _feed(report, a, lean, pname, _ref(a, lean, pname, a.gen), "own-stream-with-declared-version", seed)
        # ... the imported package's protocol of the same name is not
        _feed(report, a, lean, pname, _ref(libl, lean, pname, libl.gen), f"same-name-in-import:Lib.{pname}->App.{pname}", seed, extra={"writer_files": _files(libl)})


def _varlen(n):
    k = 1
    while n >= 128:
        n >>= 7
        k += 1
    return k


def _cross_protocol(report, lab, lean, rng, seed):
    names = list(lab.protos)
    for a in names:
        for b in names:
            if a != b and lab.schemas[a] != lab.schemas[b]:
                _feed(report, lab, lean, b, _ref(lab, lean, a, lab.gen), f"crossproto:{a}->{b}", seed)


def _cross_model(report, src, dst, lean, rng, seed):
    for pname in src.protos:
        if pname in dst.protos and src.schemas[pname] == dst.schemas[pname] and \
                json.dumps(src.protos[pname]) != json.dumps(dst.protos[pname]):
            # two protocols that encode values differently carry the same schema: the reader cannot
            # tell the foreign stream from its own
            report.case(distinct_key=("same-schema", src.idx, dst.idx, pname))
            report.violation("schema-shared-by-different-encodings",
                             {"edit": src.edit, "protocol": pname, "files_a": _files(src), "files_b": _files(dst),
                              "schema": src.schemas[pname][:2000], "seed": seed},
                             "a reader accepts (and mis-decodes) the stream of a model with a different encoding")
            continue
        if pname in dst.protos and src.schemas[pname] != dst.schemas[pname]:
            for _ in range(3):
                _feed(report, dst, lean, pname, _ref(src, lean, pname, src.gen), f"neighbour:{src.edit}", seed,
                      extra={"writer_files": _files(src)})
