"""C02 — the line-oriented NDJSON step reader (one-line look-ahead) against its Lean model.

Model: YardlModel/NdjsonReader.lean (`readSteps`); theorem `ndjson_lines_are_read_back`.
Correspondence: line sequences — the valid sequence of a value set and mutations of it (lines dropped,
duplicated, swapped, moved behind a later step, extra lines) — are given to the generated C++ and Python
NDJSON readers and to the model (driver op `nd_read`): where the model reads the whole protocol with
nothing left over, the real reader must succeed and deliver the values of exactly those lines; where the
model reports an error (a non-stream step's line is missing or out of place), the real reader must raise.
Sequences the model reads with lines left over are counted, not judged (what `close` does then is not part
of the property).
"""
import json

import jsonlab
import modelgen
from checks.c01 import _files, _errclass


def mutations(rng, lines):
    """-> list of (kind, [index into lines ...])"""
    n = len(lines)
    idx = list(range(n))
    out = [("valid", idx)]
    if n == 0:
        return out
    for _ in range(2):
        i = rng.randrange(n)
        out.append(("drop", idx[:i] + idx[i + 1:]))
    i = rng.randrange(n)
    out.append(("duplicate", idx[:i + 1] + idx[i:]))
    if n >= 2:
        i = rng.randrange(n - 1)
        out.append(("swap-adjacent", idx[:i] + [idx[i + 1], idx[i]] + idx[i + 2:]))
        i, j = sorted(rng.sample(range(n), 2))
        moved = idx[:i] + idx[i + 1:j + 1] + [idx[i]] + idx[j + 1:]
        out.append(("move-later", moved))
        out.append(("move-earlier", idx[:i] + [idx[j]] + idx[i:j] + idx[j + 1:]))
    out.append(("extra-first-line-at-end", idx + [0]))
    out.append(("truncate", idx[:rng.randrange(n)]))
    return out


def line_sequences(report, lab, lean, pname, pj, vals, lines, rng, seed, langs):
    """lines: [(step name, J expression)] in the order the writer emits them (as produced by toj_proto)"""
    steps = [[s["name"], bool(s["stream"])] for s in pj]
    # which value each line carries
    carried = []
    for (s, v) in zip(pj, vals):
        if s["stream"]:
            carried += [(s["name"], x) for x in v[1]]
        else:
            carried.append((s["name"], v[1]))
    if len(carried) != len(lines) or any(a[0] != b[0] for a, b in zip(carried, lines)):
        report.violation("harness:line-bookkeeping", {"theorem_or_correspondence": "c02_lines: lines of toj_proto vs step values", "protocol": pname},
                         "no-failing-input-found")
        return
    nstreams = sum(1 for s in pj if s["stream"])
    pyjobs, pend = [], []
    for kind, sel in mutations(rng, lines):
        m = lean.ask({"op": "nd_read", "steps": steps, "lines": [lines[i][0] for i in sel]})
        text = jsonlab.ndjson_text(lab.schemas[pname], [lines[i] for i in sel])
        inp = lab.tmp(".lines.ndjson")
        open(inp, "w", encoding="utf-8").write(text)
        expected = None
        if "steps" in m:
            expected = []
            for s, got in zip(pj, m["steps"]):
                xs = [carried[sel[k]][1] for k in got]
                expected.append(["stream", xs] if s["stream"] else ["single", xs[0]])
        ctx = {"proto": pname, "mutation": kind, "line_names": [lines[i][0] for i in sel], "model": m, "model_index": lab.idx, "seed": seed,
               "ndjson": text[:5000]}
        if "cpp" in langs:
            out = lab.tmp(".lines.cpp.bin")
            rc, err = lab.run_cpp(pname, "j", "b", inp, out, [rng.choice([1, 2, 3]) for _ in range(nstreams)])
            _judge(report, lab, lean, pj, "cpp", kind, m, expected, rc, err, out, ctx)
        if "py" in langs:
            out = lab.tmp(".lines.py.bin")
            pyjobs.append({"proto": pname, "infmt": "j", "outfmt": "b", "in": inp, "out": out})
            pend.append((kind, m, expected, out, ctx))
    if pyjobs:
        for (kind, m, expected, out, ctx), res in zip(pend, lab.run_py(pyjobs)):
            _judge(report, lab, lean, pj, "py", kind, m, expected, res["rc"], res["exc"], out, ctx)


def _judge(report, lab, lean, pj, lang, kind, m, expected, rc, err, out, ctx):
    report.case(distinct_key=("lines", json.dumps(ctx["line_names"]), ctx["proto"], lab.idx, lang, ctx["ndjson"][-800:]))
    report.count(f"line-reader.{kind}.{lang}")
    replay = dict(ctx, lang=lang, files=_files(lab), rc=rc, stderr=err, theorem_or_correspondence="Nd.readSteps vs generated NDJSON reader")
    if "error" in m:
        report.count("line-reader.model-error")
        if rc == 0:
            report.violation(f"{lang}:line-reader-accepts-misplaced-lines:{kind}", replay,
                             "the NDJSON reader completed on a line sequence in which a non-stream step's line is missing or out of place")
        elif rc != 3:
            report.violation(f"{lang}:line-reader-crash:{rc}", replay, "")
        return
    if m.get("leftover", 0) != 0:
        report.count("line-reader.model-leftover (not judged)")
        return
    report.count("line-reader.model-ok")
    if rc != 0:
        report.violation(f"{lang}:line-reader-raised:{kind}:{_errclass(err)}", replay,
                         "the NDJSON reader raised on a line sequence the step reader model reads completely")
        return
    r = lean.ask({"op": "dec_proto", "proto": pj, "hex": open(out, "rb").read().hex()})
    if "error" in r or r.get("rest", 0) != 0:
        report.violation(f"{lang}:line-reader-bytes-do-not-decode:{kind}", dict(replay, decode=r.get("error", "trailing")), "")
        return
    if modelgen.canon_stepvals(r["vals"]) != modelgen.canon_stepvals(expected):
        report.violation(f"{lang}:line-reader-values-differ:{kind}", dict(replay, expected=expected if len(json.dumps(expected)) < 3000 else "(large)",
                                                                           got=r["vals"] if len(json.dumps(r["vals"])) < 3000 else "(large)"),
                         "the values delivered are not the values of the lines the model assigns to the steps")
