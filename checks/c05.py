"""C05 — accepted schema evolution preserves data across versions.

Proof: Props/C05.lean over YardlModel/Evolution.lean (`conv`: the value a reader of the latest
version yields for a previous version's value, and the value a writer of the latest version emits
for a previous version): identity on unchanged types, records convert field-by-name with added
fields defaulted and removed ones dropped, conversions commute with the container constructors.
Tie: chains M0 -> M1 -> M2 of random accepted edits (type rewrites, record/enum/protocol edits);
the package M2 lists M0 and M1 as versions, its C++ is generated and compiled freshly; streams of
every listed version, encoded by the Lean reference encoder, are read by the new reader and
re-written (a) for the latest version — the result must decode to `conv` of the old values, or the
translator must fail exactly where `conv` predicts a runtime error — and (b) latest-version values
are written for every listed version and must decode, with that version's schema in the header, to
`conv` of the values.
"""
import concurrent.futures
import json
import os
import random
import subprocess

import evogen
import modelgen
import vlib
from checks import c06

THEOREMS = ["Yardl.C05.conversion_total", "Yardl.C05.unchanged_types_convert_exactly", "Yardl.C05.integer_conversion_checks_range", "Yardl.C05.every_integer_has_a_range", "Yardl.C05.added_field_conversions", "Yardl.C05.added_field_round_trip",
            "Yardl.C05.integer_widening_round_trip", "Yardl.C05.record_fields_convert_by_name",
            "Yardl.C05.integer_narrowing_overflows", "Yardl.C05.made_optional_or_mandatory", "Yardl.C05.optional_round_trip",
            "Yardl.C05.joined_or_left_a_union", "Yardl.C05.union_round_trip", "Yardl.C05.optional_and_union_with_null",
            "Yardl.C05.vectors_convert_element_by_element"]


def run(report, tier, seed):
    quick = tier == "quick"
    report.rule = ("a case = one (chain of versions, listed version, direction read|write, value set) pushed through the freshly generated and "
                   "compiled C++ of the newest version; distinct = distinct (models, values); non-trivial = the step types of the two versions differ")
    lean_ok, _ = vlib.check_lean(report, "Props.C05", THEOREMS)
    if not lean_ok:
        report.violation("lean:Props.C05", {"theorem_or_correspondence": "Props.C05 does not build or audit",
                                            "log": (report.extra.get("lean_build_log") or report.extra.get("lean_axiom_log", ""))[-3000:]},
                         "no-failing-input-found")
    with vlib.Scratch("vf-c05-") as sc:
        ybin = vlib.build_yardl(sc)
        inproc = vlib.build_go_harness(sc, "inproc")
        lean = vlib.LeanDriver("wiredrv")
        n = 5 if quick else 48
        labs = [Chain(sc, ybin, inproc, seed, i) for i in range(n)]
        labs += [Chain(sc, ybin, inproc, seed, 1000 + j, fixed=vs) for j, vs in enumerate(directed_chains())]
        with concurrent.futures.ThreadPoolExecutor(max_workers=max(1, vlib.NCPU // 4)) as ex:
            list(ex.map(lambda l: l.prepare(), labs))
        for lab in labs:
            if lab.err:
                report.violation(lab.stage + ":evolved-model", {"seed": seed, "chain": lab.idx, "edits": lab.descs, "error": lab.err, "files": lab.files()},
                                 "an accepted evolution does not generate / compile" if lab.stage != "harness" else "no-failing-input-found")
                continue
            report.count("chains")
            for d in lab.descs:
                for e in d:
                    report.count("edit." + e.split(":")[0] + ":" + e.split(":")[1] if ":" in e else "edit." + e)
            exercise(report, lab, lean, seed, 4 if quick else 10)
        lean.close()
        for k2, n2 in HYP.items():
            report.count("conv." + k2, n2)
        if HYP.get("identity.MODEL-DISAGREES-WITH-THEOREM"):
            report.violation("model:identity-conversion", {"theorem_or_correspondence": "Yardl.C05.unchanged_types_convert_exactly vs wiredrv evo_conv"}, "no-failing-input-found")


class Chain:
    def __init__(self, sc, ybin, inproc, seed, idx, fixed=None):
        self.sc, self.ybin, self.inproc, self.idx = sc, ybin, inproc, idx
        self.fixed = fixed
        self.rng = random.Random(seed * 52361 + idx)
        self.root = sc.path(f"chain{idx}")
        self.err, self.stage, self.descs = "", "", []

    def files(self):
        return c06.files_of(*[os.path.join(self.root, d) for d in os.listdir(self.root) if os.path.isdir(os.path.join(self.root, d)) and d.startswith("m")]) \
            if os.path.isdir(self.root) else {}

    def prepare(self):
        try:
            self._prepare()
        except Exception as e:   # noqa: BLE001
            import traceback
            self.err, self.stage = "harness exception: " + traceback.format_exc()[-1500:], "harness"
        return self

    def _prepare(self):
        r = self.rng
        # every other random chain has generic records, several instantiations of one generic reached from one step included
        g = evogen.EvoGen(r, cpp_safe=True, generics=(self.idx % 2 == 1 and not self.fixed))
        g.accepted_bias = True
        self.g = g
        os.makedirs(self.root, exist_ok=True)
        for attempt in range(40):
            vs = [g.gen_version(n_steps=r.choice([1, 2, 3]))]
            descs = []
            ok = True
            for step in range(0 if self.fixed else 2):
                found = None
                for _ in range(30):
                    cur, ds = vs[-1], []
                    for _ in range(r.choice([1, 1, 2])):
                        d, cur = g.edit(cur)
                        ds.append(d)
                    if evogen.proto_json(cur, True) == evogen.proto_json(vs[-1], True):
                        continue   # the edit must be visible from the protocol
                    found = (cur, ds)
                    break
                if not found:
                    ok = False
                    break
                vs.append(found[0])
                descs.append(found[1])
            if not ok:
                continue
            if self.fixed:
                vs, descs = self.fixed[1], [[self.fixed[0]]]
            # the newest version must accept every older one
            dirs = []
            for i, v in enumerate(vs):
                dirs.append(c06.write_version(self.root, f"m{i}", v,
                                              versions=[(f"v{j}", f"../m{j}") for j in range(i)] if i == len(vs) - 1 else None,
                                              extra=("cpp:\n  sourcesOutputDir: ../out_cpp\n  generateCMakeLists: false\n  generateHDF5: false\n"
                                                     "  generateNDJson: false\n  overrideArrayHeader: vf_ndarray.h\n") if i == len(vs) - 1 else ""))
            verdict, res = c06.real_verdict(self.inproc, dirs[-1])
            if verdict in ("ok", "warn"):
                self.versions, self.descs, self.dirs = vs, descs, dirs
                break
            if self.fixed:
                self.descs = descs
                self.err, self.stage = "a chain of documented compatible changes is rejected: " + json.dumps({k: res[k] for k in res if k.endswith("Error") or k == "panic"})[:1500], "validate"
                return
        else:
            self.err, self.stage = "no accepted chain found in 40 attempts", "harness"
            return
        self.schemas = []
        for d in self.dirs:
            p = subprocess.run([self.inproc, "dump", d], stdout=subprocess.PIPE)
            self.schemas.append(json.loads(p.stdout)["protocols"]["P"]["schema"])
        rc, out, err = vlib.yardl(self.ybin, self.dirs[-1], "generate")
        if rc != 0:
            self.err, self.stage = "yardl generate failed: " + err[-1500:], "generate"
            return
        self.protos = [evogen.proto_json(v, True) for v in self.versions]
        newest = self.protos[-1]
        main = vlib.cpp_main_versions("evo", [("P", sum(1 for s in newest if s["stream"]))], [f"v{j}" for j in range(len(self.versions) - 1)],
                                      out_cpp=os.path.join(self.root, "out_cpp"))
        self.exe = os.path.join(self.root, "xlate")
        ok, log = vlib.compile_cpp(os.path.join(self.root, "out_cpp"), main, self.exe, ndjson=False)
        if not ok:
            self.err, self.stage = "C++ compile failed: " + log[-3000:], "compile"

    def run_cpp(self, target, inp, outp, bufs, stale=None):
        env = dict(os.environ)
        env.pop("VF_STALE_FILE", None)
        if stale:
            env["VF_STALE_FILE"] = stale
        try:
            p = subprocess.run([self.exe, "P", target, inp, outp] + [str(b) for b in bufs], stdout=subprocess.PIPE, stderr=subprocess.PIPE, timeout=60, env=env)
            return p.returncode, p.stderr.decode(errors="replace")[-1500:]
        except subprocess.TimeoutExpired:
            return -9, "TIMEOUT"


def _version(defs, steps):
    v = evogen.Version()
    for d in defs:
        name = d[-1]
        v.defs[name] = d
        v.order.append(name)
    v.steps = steps
    return v


def directed_chains():
    """one chain per documented class of compatible / partially compatible change, at a record field and at a step"""
    P = lambda p: ["prim", p]
    rec = lambda fields: ["rec", fields, "R"]
    base_fields = [["a", P("int32")], ["b", P("string")], ["c", P("float64")], ["d", ["opt", P("int16")]]]
    steps = lambda: [["h", ["ref", "R"], False], ["s", ["ref", "R"], True], ["n", P("int16"), False]]
    out = []

    def chain(name, *field_lists, steps_list=None):
        vs = []
        for i, fl in enumerate(field_lists):
            vs.append(_version([rec(fl)], steps_list[i] if steps_list else steps()))
        out.append((name, vs))
    f = base_fields
    chain("directed:reorder-fields-keeping-the-last", f, [f[1], f[0], f[2], f[3]], [f[2], f[1], f[0], f[3]])
    chain("directed:reorder-all-fields", f, [f[3], f[2], f[1], f[0]])
    chain("directed:add-and-remove-optional-field", f, f + [["e", ["opt", P("string")]]], f[:3] + [["e", ["opt", P("string")]]])
    chain("directed:add-and-remove-required-field", f, f[:1] + [["z", ["vec", P("uint8"), None]]] + f[1:], f[1:])
    chain("directed:widen-and-narrow-integers", f, [["a", P("int64")]] + f[1:], [["a", P("int8")]] + f[1:])
    # an unsigned integer widened to a *signed* wider one (and a signed one to a wider signed one): the wire encodings differ (plain / zig-zag varint),
    # at a field, a vector, a step and a stream
    uw0 = [["a", P("uint32")], ["b", P("uint16")], ["c", P("int16")], ["v", ["vec", P("uint16"), None]], ["o", ["opt", P("uint32")]]]
    uw1 = [["a", P("int64")], ["b", P("int32")], ["c", P("int64")], ["v", ["vec", P("int64"), None]], ["o", ["opt", P("int64")]]]
    chain("directed:unsigned-widened-to-signed", uw0, uw1,
          steps_list=[[["h", ["ref", "R"], False], ["s", ["ref", "R"], True], ["n", P("uint16"), False], ["m", P("uint32"), True], ["w", ["vec", P("uint32"), None], False]],
                      [["h", ["ref", "R"], False], ["s", ["ref", "R"], True], ["n", P("int32"), False], ["m", P("int64"), True], ["w", ["vec", P("int64"), None], False]]])
    # same width, other signedness: the upper half of the unsigned range and the negative numbers have no counterpart
    chain("directed:same-width-sign-change-32", f, [["a", P("uint32")]] + f[1:], [["a", P("int32")]] + f[1:], [["a", P("uint32")]] + f[1:])
    chain("directed:same-width-sign-change-64-8", [["a", P("uint64")], ["b", P("uint8")]], [["a", P("int64")], ["b", P("int8")]], [["a", P("uint64")], ["b", P("uint8")]])
    # removing (and adding back) fields whose types need their own serializers in the compatibility code
    un = ["union", True, [["x", P("int16")], ["y", P("string")]]]
    un2 = ["union", False, [["p", P("float32")], ["q", ["vec", P("uint8"), None]]]]
    chain("directed:remove-and-add-union-fields", f + [["u", un], ["w", un2]], f + [["w", un2]], f + [["u", un]])
    chain("directed:integer-to-string-and-back", f, [["a", P("string")]] + f[1:], [f[0], ["b", P("string")], f[2], f[3]])
    # every integer type to string and back: the text of a 64-bit value must be parsed as a 64-bit value
    ints = ["int8", "int16", "int32", "int64", "uint8", "uint16", "uint32", "uint64", "size"]
    fi = [[f"i{k}", P(t)] for k, t in enumerate(ints)]
    fs = [[f"i{k}", P("string")] for k, t in enumerate(ints)]
    chain("directed:every-integer-to-string-and-back", fi, fs, fi)
    chain("directed:make-optional-and-back", f, [["a", ["opt", P("int32")]]] + f[1:], f)
    chain("directed:optional-to-union-and-back", f, f[:3] + [["d", ["union", True, [["x", P("int16")], ["y", P("string")]]]]], f)
    chain("directed:scalar-to-union-add-case-remove-case", f,
          [f[0], ["b", ["union", False, [["x", P("string")], ["y", P("uint8")]]]], f[2], f[3]],
          [f[0], ["b", ["union", False, [["w", ["vec", P("int8"), None]], ["x", P("string")], ["y", P("uint8")]]]], f[2], f[3]],
          [f[0], ["b", ["union", False, [["y", P("uint8")], ["x", P("string")]]]], f[2], f[3]])
    chain("directed:vector-element-type", [["v", ["vec", P("int16"), None]], ["w", ["vec", P("int16"), 3]], ["x", ["opt", ["vec", ["vec", P("uint8"), None], None]]]],
          [["v", ["vec", P("int64"), None]], ["w", ["vec", P("int32"), 3]], ["x", ["opt", ["vec", ["vec", P("uint16"), None], None]]]])
    # a record of fixed-size scalars is copied as raw memory by the C++ back end when it sits in a vector (arrays and maps of a changed record are not accepted evolutions): the
    # records of an older version must still go through the conversion
    # (fixed-width field types only - float, double, 8-bit integers - and no padding: that is what makes a record 'trivially serializable')
    fw = [["c", P("float64")], ["a", P("float32")], ["b", P("float32")], ["z", P("float64")]]
    holder_fw = lambda: [["h", ["ref", "R"], False], ["s", ["vec", ["ref", "R"], None], True], ["v", ["vec", ["ref", "R"], 2], False], ["o", ["opt", ["vec", ["ref", "R"], None]], False],
                         ["w", ["vec", ["vec", ["ref", "R"], 2], None], False], ["items", ["ref", "R"], True]]
    chain("directed:trivially-serializable-record-in-vectors", fw, [fw[3], fw[0], fw[1], fw[2]], [fw[0], fw[1], fw[2]],
          steps_list=[holder_fw(), holder_fw(), holder_fw()])
    fb = [["r", P("uint8")], ["g", P("uint8")], ["b", P("uint8")], ["x", P("int8")]]
    chain("directed:trivially-serializable-byte-record-in-vectors", fb, [fb[3], fb[2], fb[1], fb[0]], [fb[0], fb[1], fb[2]],
          steps_list=[holder_fw(), holder_fw(), holder_fw()])
    ft = [["a", P("int32")], ["c", P("float64")], ["e", P("uint16")]]
    holder = lambda: [["h", ["ref", "R"], False], ["s", ["vec", ["ref", "R"], None], True], ["v", ["vec", ["ref", "R"], 2], False], ["o", ["opt", ["vec", ["ref", "R"], None]], False],
                      ["w", ["vec", ["vec", ["ref", "R"], 2], None], False]]
    chain("directed:fixed-size-record-in-vectors", ft, [["a", P("int64")], ft[1], ft[2]], [ft[2], ft[1], ft[0]], [ft[0], ft[1]],
          steps_list=[holder(), holder(), holder(), holder()])
    s0 = steps()
    chain("directed:add-steps-that-can-be-empty", f, f, f,
          steps_list=[s0, s0 + [["t", ["opt", P("string")], False]], [["u", P("int32"), True]] + s0 + [["t", ["opt", P("string")], False], ["m", ["map", P("string"), P("int8")], False]]])
    chain("directed:step-type-changes", f, f,
          steps_list=[s0, [["h", ["ref", "R"], False], ["s", ["ref", "R"], True], ["n", ["opt", P("int16")], False]]])
    out += generic_chains()
    out += alias_chains()
    return out


def alias_chains():
    """named aliases of primitives whose target changes between versions (float -> double, int -> long, string <-> int), used as stream items, vector
    elements, record fields and map values. The first one is the directed witness of an open finding (vectors / batched stream reads of an alias
    of a fixed-width primitive go through the raw-memory path of the runtime and skip the conversion)."""
    import copy
    P = lambda p: ["prim", p]
    out = []
    for name, told, tnew, tag in (("float-to-double", P("float32"), P("float64"), "witness:alias-of-fixed-width-primitive-changed"),
                                  ("int-to-long", P("int32"), P("int64"), "directed:alias-target-changed:int-to-long"),
                                  ("uint8-to-int16", P("uint8"), P("int16"), "witness:alias-of-fixed-width-primitive-changed:uint8")):
        v0 = evogen.Version()
        v0.defs["Pixel"] = ["alias", told, "Pixel"]
        v0.defs["R"] = ["rec", [["a", P("int32")], ["p", ["ref", "Pixel"]]], "R"]
        v0.order += ["Pixel", "R"]
        v0.steps = [["one", ["ref", "Pixel"], False], ["px", ["ref", "Pixel"], True], ["vec", ["vec", ["ref", "Pixel"], None], False], ["recs", ["ref", "R"], True],
                    ["opt", ["opt", ["ref", "Pixel"]], False]]
        v1 = copy.deepcopy(v0)
        v1.defs["Pixel"] = ["alias", tnew, "Pixel"]
        out.append((tag, [v0, v1]))
    return out


def generic_chains():
    """one generic record instantiated several times inside the type of one step (directly, in a vector, in a union); the definition only one of the
    type arguments reaches changes compatibly: old streams must still be converted field by field, whichever instantiation is met first"""
    import copy
    P = lambda p: ["prim", p]
    out = []
    for arrangement in ("holder", "holder-changed-first", "union", "nested"):
        v0 = evogen.Version()
        v0.defs["H"] = ["rec", [["x", P("string")], ["y", P("uint8")]], "H"]
        v0.defs["R"] = ["rec", [["a", P("int32")], ["c", P("float64")]], "R"]
        v0.order += ["H", "R"]
        v0.generics["G"] = ["T", [["label", P("string")], ["value", ["tparam", "T"]]]]
        gh, gr = evogen.instantiate(v0, "G", ["ref", "H"]), evogen.instantiate(v0, "G", ["ref", "R"])
        if arrangement == "holder":
            v0.defs["F"] = ["rec", [["header", ["ref", gh]], ["samples", ["vec", ["ref", gr], None]]], "F"]
        elif arrangement == "holder-changed-first":
            v0.defs["F"] = ["rec", [["samples", ["vec", ["ref", gr], None]], ["header", ["ref", gh]]], "F"]
        elif arrangement == "union":
            v0.defs["F"] = ["rec", [["u", ["union", False, [["hd", ["ref", gh]], ["sm", ["ref", gr]]]]], ["o", ["opt", ["ref", gr]]]], "F"]
        else:
            ggr = evogen.instantiate(v0, "G", ["ref", gr])
            v0.defs["F"] = ["rec", [["header", ["ref", gh]], ["deep", ["ref", ggr]]], "F"]
        v0.order.append("F")
        v0.steps = [["f", ["ref", "F"], False], ["fs", ["ref", "F"], True], ["n", P("int16"), False]]
        v1 = copy.deepcopy(v0)
        v1.defs["R"] = ["rec", [["c", P("float64")], ["a", P("int32")], ["e", ["opt", P("string")]]], "R"]
        v2 = copy.deepcopy(v1)
        v2.defs["H"] = ["rec", [["y", P("uint8")], ["x", P("string")]], "H"]
        v2.defs["R"] = ["rec", [["a", P("int64")], ["c", P("float64")]], "R"]
        out.append((f"directed:several-instantiations-of-a-generic-in-one-step:{arrangement}", [v0, v1, v2]))
    return out


import collections
HYP = collections.Counter()


def _conv_steps(lean, reading, src_proto, dst_proto, vals):
    """expected step values of dst_proto; -> (expected | None, status) status in ok|err|unsupported"""
    by_name = {s["name"]: (s, v) for s, v in zip(src_proto, vals)}
    out, status = [], "ok"
    for d in dst_proto:
        if d["name"] not in by_name:
            # a step the source version does not have: the reader yields the empty value, the writer skips it
            out.append(["stream", []] if d["stream"] else ["single", _zero(d["ty"])])
            continue
        s, sv = by_name[d["name"]]
        items = sv[1] if s["stream"] else [sv[1]]
        conv = []
        for x in items:
            r = lean.ask({"op": "evo_conv", "reading": reading, "src": s["ty"], "dst": d["ty"], "val": x})
            if s["ty"] == d["ty"]:
                # an instance of unchanged_types_convert_exactly: under its hypotheses the model must answer the value itself
                HYP["identity." + ("hypotheses-hold" if r.get("wf_fits") else "hypotheses-fail-or-not-ok")] += 1
                if r.get("wf_fits") and r.get("ok") != x:
                    HYP["identity.MODEL-DISAGREES-WITH-THEOREM"] += 1
            if "ok" in r:
                conv.append(r["ok"])
            elif "err" in r:
                status = "err" if status != "unsupported" else status
                conv.append(None)
            else:
                status = "unsupported"
                conv.append(None)
        out.append(["stream", conv] if d["stream"] else ["single", conv[0]])
    return out, status


def _zero(t):
    k = t[0]
    if k == "opt":
        return ["none"]
    if k == "union":
        return ["none"]
    if k == "vec":
        return ["list", []]
    if k == "map":
        return ["map", []]
    return ["none"]


def exercise(report, lab, lean, seed, n_sets):
    g = modelgen.Gen(seed * 7 + lab.idx)
    last = len(lab.versions) - 1
    newest = lab.protos[last]
    nstreams = sum(1 for s in newest if s["stream"])
    for old_i in range(last):
        oldp = lab.protos[old_i]
        changed = json.dumps(oldp) != json.dumps(newest)
        for k in range(n_sets):
            bufs = [g.rng.choice([1, 2, 3, 64]) for _ in range(nstreams)]
            # (a) read: a stream of version old_i through the newest reader, re-written at the newest version
            vals = _with_numeric_text(g, oldp, newest, _alternate(g, oldp, g.gen_step_vals(oldp)))
            parts = [g.gen_partition(len(v[1])) if v[0] == "stream" else [] for v in vals]
            enc = lean.ask({"op": "enc_proto", "proto": oldp, "parts": parts, "vals": vals, "schema": lab.schemas[old_i]})
            inp, outp = os.path.join(lab.root, f"r{old_i}_{k}.in"), os.path.join(lab.root, f"r{old_i}_{k}.out")
            open(inp, "wb").write(bytes.fromhex(enc["hex"]))
            want, status = _conv_steps(lean, True, oldp, newest, vals)
            rc, err = lab.run_cpp("cur", inp, outp, bufs)
            _judge(report, lab, lean, "read", old_i, newest, lab.schemas[last], vals, want, status, rc, err, outp, seed, changed)
            # the same stream read into values and vectors that have just been filled from a stream of the newest version (other values): a field
            # the old version does not have must come out as its zero value, not as what the destination held
            svals = g.gen_step_vals(newest)
            sparts = [g.gen_partition(len(v[1])) if v[0] == "stream" else [] for v in svals]
            senc = lean.ask({"op": "enc_proto", "proto": newest, "parts": sparts, "vals": svals, "schema": lab.schemas[last]})
            sfile, outs = os.path.join(lab.root, f"r{old_i}_{k}.stale"), os.path.join(lab.root, f"r{old_i}_{k}.out2")
            open(sfile, "wb").write(bytes.fromhex(senc["hex"]))
            rc, err = lab.run_cpp("cur", inp, outs, bufs, stale=sfile)
            report.count("runs.read.into-used-destinations")
            _judge(report, lab, lean, "read", old_i, newest, lab.schemas[last], vals, want, status, rc, err, outs, seed, changed)
            # (b) write: newest-version values written for version old_i
            vals = _with_numeric_text(g, newest, oldp, _alternate(g, newest, g.gen_step_vals(newest)))
            parts = [g.gen_partition(len(v[1])) if v[0] == "stream" else [] for v in vals]
            enc = lean.ask({"op": "enc_proto", "proto": newest, "parts": parts, "vals": vals, "schema": lab.schemas[last]})
            inp, outp = os.path.join(lab.root, f"w{old_i}_{k}.in"), os.path.join(lab.root, f"w{old_i}_{k}.out")
            open(inp, "wb").write(bytes.fromhex(enc["hex"]))
            want, status = _conv_steps(lean, False, newest, oldp, vals)
            rc, err = lab.run_cpp(f"v{old_i}", inp, outp, bufs)
            _judge(report, lab, lean, "write", old_i, oldp, lab.schemas[old_i], vals, want, status, rc, err, outp, seed, changed)


INT_RANGE = {"int8": (-2**7, 2**7 - 1), "int16": (-2**15, 2**15 - 1), "int32": (-2**31, 2**31 - 1), "int64": (-2**63, 2**63 - 1),
             "uint8": (0, 2**8 - 1), "uint16": (0, 2**16 - 1), "uint32": (0, 2**32 - 1), "uint64": (0, 2**64 - 1), "size": (0, 2**64 - 1)}


def _numeric_text(rng, src_ty, dst_ty, v, keep=0.0):
    """where the source holds a string and the other version an integer at the same place, most strings are made the decimal
    text of a value of that integer type (its limits, the limits of the narrower types, random values): a random string would
    only ever exercise the error path of the conversion"""
    if src_ty == ["prim", "string"] and dst_ty[0] == "prim" and dst_ty[1] in INT_RANGE and v[0] == "s":
        if rng.random() < keep:
            return v
        lo, hi = INT_RANGE[dst_ty[1]]
        n = rng.choice([lo, hi, 0, 1, -1 if lo < 0 else 2, hi // 2, lo // 2, 2**31 if hi > 2**31 else hi, -2**31 - 1 if lo < -2**31 else lo,
                        2**32 if hi > 2**32 else hi, rng.randint(lo, hi), rng.randint(lo, hi)])
        return ["s", str(n).encode().hex()]
    if src_ty[0] != dst_ty[0]:
        return v
    k = src_ty[0]
    if k == "rec" and v[0] == "rec":
        dst_fields = dict((n, t) for n, t in dst_ty[1])
        return ["rec", [_numeric_text(rng, t, dst_fields[n], x, keep) if n in dst_fields else x for (n, t), x in zip(src_ty[1], v[1])]]
    if k == "opt" and v[0] == "some":
        return ["some", _numeric_text(rng, src_ty[1], dst_ty[1], v[1], keep)]
    if k == "vec" and v[0] == "list":
        return ["list", [_numeric_text(rng, src_ty[1], dst_ty[1], x, keep) for x in v[1]]]
    return v


def _with_numeric_text(g, src_proto, dst_proto, vals):
    dst = {s["name"]: s for s in dst_proto}
    out = []
    # three value sets in four: every such string is numeric (one text that cannot be converted fails the whole stream)
    keep = 0.0 if g.rng.random() < 0.75 else 0.2
    for s, v in zip(src_proto, vals):
        d = dst.get(s["name"])
        if d is None or d["stream"] != s["stream"]:
            out.append(v)
        elif s["stream"]:
            out.append(["stream", [_numeric_text(g.rng, s["ty"], d["ty"], x, keep) for x in v[1]]])
        else:
            out.append(["single", _numeric_text(g.rng, s["ty"], d["ty"], v[1], keep)])
    return out


def _alternate(g, proto, vals):
    """stream items alternate between a random value and the minimal value of the type (null optionals, first union case,
    empty containers), at least three items: state a conversion leaves behind for one item would show in the next"""
    out = []
    for s, v in zip(proto, vals):
        if s["stream"]:
            items = list(v[1])
            while len(items) < 3:
                items.append(g.gen_value(s["ty"], 3))
            items = [modelgen.shrink_value(s["ty"], x) if i % 2 == 1 else x for i, x in enumerate(items)]
            out.append(["stream", items])
        else:
            out.append(v)
    return out


def _judge(report, lab, lean, direction, old_i, dst_proto, dst_schema, vals, want, status, rc, err, outp, seed, changed):
    report.case(distinct_key=(lab.idx, old_i, direction, json.dumps(vals)) if changed else None,
                sample={"chain": lab.idx, "edits": lab.descs, "direction": direction, "version": f"v{old_i}", "status": status} if report.evaluations % 40 == 0 else None)
    report.count(f"{direction}.{status}")
    if lab.descs and str(lab.descs[0][0]).startswith("directed:"):
        report.count(f"{lab.descs[0][0]}.{direction}.{status}")
    sfx = (":" + str(lab.descs[0][0])) if lab.descs and str(lab.descs[0][0]).startswith("witness:") else ""
    _v = report.violation
    report_violation = lambda key, rp, note="": _v(key + sfx, rp, note)
    replay = {"seed": seed, "chain": lab.idx, "edits": lab.descs, "direction": direction, "listed_version": f"v{old_i}",
              "values": vals if len(json.dumps(vals)) < 4000 else "(large)", "model_expects": want if len(json.dumps(want)) < 4000 else "(large)",
              "model_status": status, "rc": rc, "stderr": err, "files": lab.files()}
    if rc not in (0, 3):
        report_violation(f"cpp:{direction}:crash", replay, "the generated translator crashed (not a C++ exception)")
        return
    if status == "unsupported":
        return
    if status == "err":
        if rc == 0:
            report_violation(f"cpp:{direction}:expected-runtime-error-but-succeeded", replay,
                             "the model predicts a documented runtime error (overflow / union case without counterpart); the generated code wrote a value")
        return
    if rc != 0:
        report_violation(f"cpp:{direction}:raised:{err.split(chr(10))[0][:60]}", replay, "converting between versions failed at run time")
        return
    r = lean.ask({"op": "dec_proto", "proto": dst_proto, "hex": open(outp, "rb").read().hex()})
    if "error" in r or r.get("rest", 0) != 0:
        report_violation(f"cpp:{direction}:output-does-not-decode", dict(replay, decode=r.get("error", "trailing bytes")),
                         "what the generated code wrote is not a stream of the target version")
        return
    if json.loads(r["schema"]) != json.loads(dst_schema):
        report_violation(f"cpp:{direction}:wrong-schema-in-header", dict(replay, header=r["schema"][:600]), "")
        return
    if modelgen.canon_stepvals(r["vals"]) != modelgen.canon_stepvals(want):
        report_violation(f"cpp:{direction}:converted-value-differs", dict(replay, got=r["vals"] if len(json.dumps(r["vals"])) < 4000 else "(large)"),
                         "the value obtained across versions is not the documented conversion of the original")
