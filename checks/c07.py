"""C07 — protocol step order is enforced by generated readers and writers.

Proof: Props/C07.lean (numeric state machines of the generated code bisimilar to descriptive
specification machines, all shapes, all call sequences, adversarial read outcomes).
Correspondence: the *generated* abstract base classes (C++ and Python) of many protocol shapes are
driven with scripted stub implementations; for every call sequence the index of the first rejected
call must equal the Lean machines'. Exhaustive sequences up to a length bound for all shapes with
<= 3 steps, random long sequences for larger shapes, a 130-step protocol (state counter width), and
in-order sequences that must be accepted and closable.
"""
import itertools
import json
import os
import random
import subprocess

import vlib
from formatting_shim import to_pascal

THEOREMS = ["Yardl.C07.cpp_writer_iff", "Yardl.C07.py_writer_iff", "Yardl.C07.cpp_reader_iff", "Yardl.C07.py_reader_iff", "Yardl.C07.abandoned_stream_blocks_the_reader",
            "Yardl.C07.spec_close_cpp_writer", "Yardl.C07.spec_out_of_order_write_cpp", "Yardl.C07.spec_close_cpp_reader",
            "Yardl.C07.spec_close_py_reader", "Yardl.C07.matlab_writer_iff", "Yardl.C07.matlab_reader_iff", "Yardl.C07.spec_matlab_reader",
            "Yardl.C07.cpp_writer_with_failing_writes_iff", "Yardl.C07.py_writer_with_failing_writes_iff", "Yardl.C07.failed_write_keeps_the_implicit_end"]


def shapes(rng, quick):
    res = []
    for n in (1, 2, 3):
        res += [list(s) for s in itertools.product([False, True], repeat=n)]
    for _ in range(4 if quick else 30):
        res.append([rng.random() < 0.5 for _ in range(rng.randrange(4, 8))])
    res.append([False] * 130)          # state counter width (uint8_t before 2a31fce)
    res.append([i % 3 == 1 for i in range(131)])
    return res


def write_model(d, shps):
    os.makedirs(d, exist_ok=True)
    open(os.path.join(d, "_package.yml"), "w").write(
        "namespace: St\ncpp:\n  sourcesOutputDir: ../cpp\n  generateCMakeLists: false\n  generateHDF5: false\n  generateNDJson: false\n"
        "  overrideArrayHeader: vf_ndarray.h\npython:\n  outputDir: ../py\nmatlab:\n  outputDir: ../matlab\n")
    lines = []
    for k, shp in enumerate(shps):
        lines.append(f"P{k}: !protocol\n  sequence:")
        for i, st in enumerate(shp):
            lines.append(f"    s{i}: !stream\n      items: int" if st else f"    s{i}: int")
    open(os.path.join(d, "model.yml"), "w").write("\n".join(lines) + "\n")


CPP_HEAD = r'''
#include <iostream>
#include <sstream>
#include <string>
#include <vector>
#include "protocols.h"
static std::vector<bool> script; static size_t script_pos;
struct InjectedFault {}; static bool fail_next = false;   // the implementation of the next write raises (not a std::exception)
static void maybe_fail() { if (fail_next) { fail_next = false; throw InjectedFault{}; } }
static bool next_outcome() { return script_pos < script.size() ? script[script_pos++] : false; }
'''


def cpp_driver(shps):
    src = [CPP_HEAD]
    for k, shp in enumerate(shps):
        src.append(f"struct W{k} : st::P{k}WriterBase {{")
        for i, stm in enumerate(shp):
            src.append(f"  void WriteS{i}Impl(int32_t const&) override {{ maybe_fail(); }}")
            if stm:
                src.append(f"  void EndS{i}Impl() override {{}}")
        src.append("  void CloseImpl() override {}\n};")
        src.append(f"struct R{k} : st::P{k}ReaderBase {{")
        for i, stm in enumerate(shp):
            if stm:
                src.append(f"  bool ReadS{i}Impl(int32_t& v) override {{ v = 1; return next_outcome(); }}")
                src.append(f"  bool ReadS{i}Impl(std::vector<int32_t>& vs) override {{ vs.resize(1); return next_outcome(); }}")
            else:
                src.append(f"  void ReadS{i}Impl(int32_t& v) override {{ v = 1; }}")
        src.append("  void CloseImpl() override {}\n};")
    src.append("int main() { std::string line; while (std::getline(std::cin, line)) { std::istringstream is(line); int k; std::string kind; is >> k >> kind;")
    src.append("  std::vector<std::string> toks; std::string t; while (is >> t) toks.push_back(t); script.clear(); script_pos = 0; int reject = -1;")
    src.append("  auto arg = [](std::string const& t) { return std::stoi(t.substr(1, t.find(':') == std::string::npos ? std::string::npos : t.find(':') - 1)); };")
    src.append("  auto flag = [](std::string const& t) { return t.back() == '1'; };")
    for k, shp in enumerate(shps):
        src.append(f"  if (k == {k} && kind == \"W\") {{ W{k} w; int32_t v = 1; std::vector<int32_t> vs{{1, 2}}; std::vector<int32_t> ve; for (size_t n = 0; n < toks.size(); n++) {{ try {{")
        src.append("      char c = toks[n][0]; int i = c == 'c' ? -1 : arg(toks[n]); fail_next = false;")
        src.append("      if (c == 'c') w.Close();")
        for i, stm in enumerate(shp):
            src.append(f"      else if (c == 'w' && i == {i}) w.WriteS{i}(v);")
            src.append(f"      else if (c == 'f' && i == {i}) {{ fail_next = true; try {{ w.WriteS{i}(v); }} catch (InjectedFault const&) {{}} if (fail_next) throw std::runtime_error(\"the implementation was not reached although the call returned\"); }}")
            if stm:
                src.append(f"      else if (c == 'b' && i == {i}) w.WriteS{i}(vs);")
                src.append(f"      else if (c == 'z' && i == {i}) w.WriteS{i}(ve);")
                src.append(f"      else if (c == 'e' && i == {i}) w.EndS{i}();")
        src.append("      else throw std::runtime_error(\"no such method\");")
        src.append("    } catch (std::exception const&) { reject = (int)n; break; } } }")
        src.append(f"  if (k == {k} && kind == \"R\") {{ R{k} r; int32_t v; std::vector<int32_t> vs; vs.reserve(4); for (size_t n = 0; n < toks.size(); n++) {{ try {{")
        src.append("      char c = toks[n][0]; int i = c == 'c' ? -1 : arg(toks[n]); script.assign(1, flag(toks[n])); script_pos = 0;")
        src.append("      if (c == 'c') r.Close();")
        for i, stm in enumerate(shp):
            if stm:
                src.append(f"      else if (c == 'r' && i == {i}) r.ReadS{i}(v);")
                src.append(f"      else if (c == 'B' && i == {i}) r.ReadS{i}(vs);")
            else:
                src.append(f"      else if (c == 'r' && i == {i}) r.ReadS{i}(v);")
        src.append("      else throw std::runtime_error(\"no such method\");")
        src.append("    } catch (std::exception const&) { reject = (int)n; break; } } }")
    src.append("  std::cout << reject << \"\\n\" << std::flush; } }")
    return "\n".join(src)


PY_DRIVER = r'''
import sys, json
sys.path.insert(0, sys.argv[1])
import st
from st import protocols as P

class InjectedFault(Exception):
    pass

FAIL = [False]

def maybe_fail():
    if FAIL[0]:
        FAIL[0] = False
        raise InjectedFault()

def mk_writer(k, shape):
    base = getattr(P, f"P{k}WriterBase")
    ns = {"_close": lambda self: None, "_end_stream": lambda self: None}
    for i in range(len(shape)):
        ns[f"_write_s{i}"] = (lambda self, v: (maybe_fail(), [None for _ in v])) if shape[i] else (lambda self, v: maybe_fail())
    return type(f"W{k}", (base,), ns)()

def mk_reader(k, shape):
    base = getattr(P, f"P{k}ReaderBase")
    ns = {"_close": lambda self: None}
    for i in range(len(shape)):
        ns[f"_read_s{i}"] = (lambda self: iter([1, 2])) if shape[i] else (lambda self: 1)
    return type(f"R{k}", (base,), ns)()

shapes = json.loads(sys.argv[2])
for line in sys.stdin:
    t = line.split()
    k, kind, toks = int(t[0]), t[1], t[2:]
    reject = -1
    if kind == "W":
        w = mk_writer(k, shapes[k])
        for n, tok in enumerate(toks):
            try:
                FAIL[0] = False
                if tok == "c":
                    w.close()
                elif tok[0] == "f":
                    # a write whose implementation raises: not a rejection; the writer is used further
                    i = int(tok[1:])
                    FAIL[0] = True
                    try:
                        getattr(w, f"write_s{i}")(1 if not shapes[k][i] else [1, 2])
                    except InjectedFault:
                        pass
                    if FAIL[0]:
                        raise RuntimeError("the implementation was not reached although the call returned")
                else:
                    i = int(tok[1:])
                    arg = 1 if not shapes[k][i] else [] if tok[0] == "z" else (x for x in [1]) if tok[0] == "g" else [1, 2]
                    getattr(w, f"write_s{i}")(arg)
            except Exception:
                reject = n
                break
    else:
        r = mk_reader(k, shapes[k])
        pending = {}
        for n, tok in enumerate(toks):
            try:
                if tok == "c":
                    r.close()
                elif tok[0] == "r":
                    i = int(tok[1:])
                    v = getattr(r, f"read_s{i}")()
                    if shapes[k][i]:
                        pending[i] = v
                elif tok[0] == "p":
                    # take one item, then drop the iterable before its end (what leaving a for loop early and letting the
                    # generator go does): nothing can be taken from it afterwards
                    i = int(tok[1:])
                    if i not in pending:
                        raise RuntimeError("no outstanding iterable")
                    it = iter(pending.pop(i))
                    next(it)
                    it.close()
                    del it
                else:
                    i = int(tok[1:])
                    if i not in pending:
                        raise RuntimeError("no outstanding iterable")
                    for _ in pending.pop(i):
                        pass
            except Exception:
                reject = n
                break
    print(reject, flush=True)
'''


def gen_seq(rng, machine, shape, length):
    n = len(shape)
    seq = []
    pos = 0
    for _ in range(length):
        r = rng.random()
        i = min(max(pos + rng.choice([0, 0, 0, 0, 1, 1, -1, 2]), 0), n - 1)
        if machine in ("cppW", "pyW"):
            if r < 0.12:
                seq.append(["c"])
            elif machine == "cppW" and r < 0.4:
                seq.append(["e", i]); pos = i + 1
            elif r > 0.86:
                seq.append(["f", i])          # the implementation of this write raises; the writer is used further
            else:
                seq.append(["w", i]); pos = i if shape[i] else i + 1
        elif machine == "cppR":
            if r < 0.12:
                seq.append(["c"])
            elif r < 0.45:
                b = rng.random() < 0.5
                seq.append(["B", i, b]); pos = i if b else i
            else:
                b = rng.random() < 0.6
                seq.append(["r", i, b]); pos = i if (shape[i] and b) else i + 1
        else:
            if r < 0.12:
                seq.append(["c"])
            elif r < 0.2:
                seq.append(["p", i])
            elif r < 0.45:
                seq.append(["x", i]); pos = i + 1
            else:
                seq.append(["r", i]); pos = i if shape[i] else i + 1
    return seq


def tok(machine, op, shape=None, rr=None):
    """the token sent to the driver; with `rr`, *how* a stream write is made varies (single value / batch / empty batch / generator): the state machine
    does not depend on it - an empty batch is still a call to that step"""
    if op[0] == "c":
        return "c"
    if rr is not None and op[0] == "w" and shape is not None and shape[op[1]]:
        return rr.choice("wbz" if machine == "cppW" else "wzg") + str(op[1])
    if machine == "cppR" and op[0] in ("r", "B"):
        return f"{op[0]}{op[1]}:{1 if op[2] else 0}"
    return f"{op[0]}{op[1]}"


def in_order(machine, shape):
    seq = []
    for i, stm in enumerate(shape):
        if machine == "cppW":
            seq += ([["w", i], ["w", i], ["e", i]] if stm else [["w", i]])
        elif machine == "pyW":
            seq += [["w", i]]
        elif machine == "cppR":
            seq += ([["r", i, True], ["B", i, False], ["r", i, False]] if stm and i % 2 == 0 else [["r", i, True], ["r", i, False]] if stm else [["r", i, True]])
        else:
            seq += ([["r", i], ["x", i]] if stm else [["r", i]])
    return seq + [["c"]]


def run(report, tier, seed):
    quick = tier == "quick"
    report.rule = ("a case = one call sequence on one generated base class; exhaustive sequences (length <= 4 quick / 5 thorough) over each "
                   "machine's alphabet for all shapes with <= 2 steps (<= 3 thorough), random sequences of length <= 14 for larger shapes, "
                   "in-order sequences for every shape incl. 130 steps; distinct = distinct (machine, shape, sequence); non-trivial = length >= 2")
    rng = random.Random(seed * 977 + 7)
    lean_ok, _ = vlib.check_lean(report, "Props.C07", THEOREMS)
    if not lean_ok:
        report.violation("lean:Props.C07", {"theorem_or_correspondence": "Props.C07 does not build or audit",
                                            "log": (report.extra.get("lean_build_log") or report.extra.get("lean_axiom_log", ""))[-3000:]},
                         "no-failing-input-found")
    with vlib.Scratch("vf-c07-") as sc:
        ybin = vlib.build_yardl(sc)
        shps = shapes(rng, quick)
        write_model(sc.path("m"), shps)
        rc, out, err = vlib.yardl(ybin, sc.path("m"), "generate")
        if rc != 0:
            report.violation("generate:model", {"error": err[-1500:]}, "")
            return
        cppdir = sc.path("cpp")
        open(os.path.join(cppdir, "drv.cc"), "w").write(cpp_driver(shps))
        exe = sc.path("drv")
        p = vlib.run(["g++", "-std=c++17", "-O0", "-w", "-I", os.path.join(vlib.HARNESS, "cpp"), "-I", cppdir,
                      os.path.join(cppdir, "drv.cc"), os.path.join(cppdir, "protocols.cc"), os.path.join(cppdir, "types.cc"), "-o", exe], timeout=900)
        if p.returncode != 0:
            report.violation("compile:model", {"error": p.stderr.decode()[-2000:]}, "")
            return
        cpp = subprocess.Popen([exe], stdin=subprocess.PIPE, stdout=subprocess.PIPE)
        open(sc.path("pydrv.py"), "w").write(PY_DRIVER)
        py = subprocess.Popen(["python3-vt", sc.path("pydrv.py"), sc.path("py"), json.dumps(shps)], stdin=subprocess.PIPE, stdout=subprocess.PIPE)
        lean = vlib.LeanDriver("wiredrv")

        # MATLAB cannot be run here: the method tables of the generated base classes are read out of the .m files and compared with the tables whose
        # machines the theorems matlab_writer_iff / matlab_reader_iff are about (every shape of this run, the 130-step ones included)
        import matlabproto
        for k, shp in enumerate(shps):
            want = lean.ask({"op": "matlab_rows", "shape": shp})
            names = [f"s{i}" for i in range(len(shp))]
            for side, fn in (("writer", f"P{k}WriterBase.m"), ("reader", f"P{k}ReaderBase.m")):
                path = os.path.join(sc.path("matlab"), "+st", fn)
                report.case(distinct_key=("matlab-table", side, tuple(shp)))
                report.count(f"matlab.{side}-tables")
                replay = {"shape": shp, "file": fn, "seed": seed}
                try:
                    got = matlabproto.rows(open(path).read(), names, side == "writer")
                except (OSError, ValueError, AttributeError) as e:
                    report.violation(f"matlab:{side}:table-not-readable", dict(replay, error=str(e), text=(open(path).read()[:3000] if os.path.exists(path) else None)),
                                     "the generated MATLAB base class does not have the shape the translator (and the model) assume")
                    continue
                # (the order of the methods in the file is immaterial: a method is looked up by kind and step)
                key = lambda r: (r[1] if r[0] != "close" else 10 ** 9, r[0])
                got, wanted = sorted(got, key=key), sorted(want[side], key=key)
                if got != wanted:
                    diff = [(a, b) for a, b in zip(got, wanted) if a != b][:5] or [("length", len(got), len(wanted))]
                    report.violation(f"matlab:{side}:table-differs-from-model", dict(replay, generated=got[:40], model=wanted[:40], first_differences=diff,
                                                                                   theorem_or_correspondence="Proto.matWriterRows / matReaderRows vs the generated .m file"),
                                     "the state guards / transitions of the generated MATLAB base class are not the ones proved to enforce the step order")

        def ask(proc, line):
            proc.stdin.write((line + "\n").encode())
            proc.stdin.flush()
            r = proc.stdout.readline()
            if not r:
                raise RuntimeError("driver died on " + line[:200])
            return int(r)
        maxlen = 4 if quick else 5
        small = 2 if quick else 3
        for k, shape in enumerate(shps):
            n = len(shape)
            for machine in ("cppW", "pyW", "cppR", "pyR"):
                seqs = [in_order(machine, shape)]
                if n <= small:
                    alpha = [["c"]]
                    for i in range(n):
                        if machine == "cppW":
                            alpha += [["w", i], ["f", i]] + ([["e", i]] if shape[i] else [])
                        elif machine == "pyW":
                            alpha += [["w", i], ["f", i]]
                        elif machine == "cppR":
                            alpha += [["r", i, True], ["r", i, False]] + ([["B", i, True], ["B", i, False]] if shape[i] else [])
                        else:
                            alpha += [["r", i]] + ([["x", i], ["p", i]] if shape[i] else [])
                    for L in range(1, maxlen + 1):
                        allseq = list(itertools.product(alpha, repeat=L))
                        if len(allseq) > (400 if quick else 4000):
                            allseq = rng.sample(allseq, 400 if quick else 4000)
                        seqs += [list(s) for s in allseq]
                elif n < 100:
                    seqs += [gen_seq(rng, machine, shape, rng.randrange(2, 15)) for _ in range(40 if quick else 400)]
                for seq in seqs:
                    # a closed reader/writer must not be used again: nothing is specified after close()
                    if ["c"] in seq:
                        seq = seq[:seq.index(["c"]) + 1]
                    # calls that do not exist in the generated API (batch/end on a non-stream step) are skipped
                    if any(op[0] in ("e", "B", "x", "p") and not shape[op[1]] for op in seq if op[0] != "c"):
                        continue
                    m = lean.ask({"op": "proto_run", "machine": machine, "shape": shape, "ops": seq})
                    want = -1 if m["reject"] is None else m["reject"]
                    proc, kind = (cpp, machine[-1]) if machine.startswith("cpp") else (py, machine[-1])
                    got = ask(proc, f"{k} {kind} " + " ".join(tok(machine, o) for o in seq))
                    if machine in ("cppW", "pyW") and any(o[0] == "w" and shape[o[1]] for o in seq if o[0] != "c"):
                        # the same calls, each stream write made in another way (batch, empty batch, generator)
                        vr = random.Random(hash(json.dumps(seq)) & 0xffff)
                        toks = " ".join(tok(machine, o, shape, vr) for o in seq)
                        got2 = ask(proc, f"{k} {kind} " + toks)
                        report.count(f"runs.{machine}.write-variants")
                        if got2 != want:
                            cls = "accepts-out-of-order" if (want != -1 and (got2 == -1 or got2 > want)) else "rejects-in-order"
                            report.violation(f"{machine}:{cls}:write-variant", {"machine": machine, "shape": shape if n < 20 else f"{n} steps", "protocol_index": k, "calls": seq,
                                                                                 "tokens (w single, b batch of two, z empty batch, g generator)": toks,
                                                                                 "model_first_rejected": want, "generated_code_first_rejected": got2, "seed": seed},
                                             "how a stream write is made (single value, batch, empty batch, generator) changes whether the call is accepted")
                    report.case(distinct_key=(machine, tuple(shape) if n < 100 else n, json.dumps(seq)) if len(seq) >= 2 else None,
                                sample={"machine": machine, "shape": shape if n < 10 else f"{n} steps", "calls": seq[:12], "first_rejected": want} if report.evaluations % 3000 == 7 else None)
                    report.count(f"runs.{machine}")
                    if got != want:
                        cls = "accepts-out-of-order" if (want != -1 and (got == -1 or got > want)) else "rejects-in-order"
                        report.violation(f"{machine}:{cls}", {"machine": machine, "shape": shape if n < 20 else f"{n} steps (see checks/c07.py shapes)",
                                                              "protocol_index": k, "calls": seq, "model_first_rejected": want, "generated_code_first_rejected": got, "seed": seed},
                                         "generated base class and state-machine model disagree on the first rejected call")
        for proc in (cpp, py):
            proc.stdin.close()
            proc.wait(timeout=20)
        lean.close()
