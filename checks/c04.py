"""C04 — every stream carries a schema that pins down its encoding.

Proof: Props/C04.lean (header shape; the encoding plan is a function of the schema text alone; the
reachability closure used to collect the schema's types is exact and insensitive to definition order
and unreferenced definitions).
Correspondence (no compilation needed): for random and directed packages
  (1) Lean `planOfSchema(schema text)` == the wire types the package generator resolved independently
      (modulo enum-vs-flags, which the schema does not record: known finding);
  (2) the schema literal embedded in generated C++, Python and MATLAB sources is the same text, and equals
      what dsl.GetProtocolSchemaString returns in-process;
  (3) neutral edits (comments, computed fields, unreferenced definitions, definition order, file layout)
      leave every schema unchanged;
  (4) single wire-affecting edits change the schema of every protocol whose wire types changed.
"""
import copy
import json
import os
import random
import re
import subprocess

import modelgen
import vlib
from checks.c15 import neighbour, directed_pairs

THEOREMS = ["Yardl.C04.header_carries_schema", "Yardl.C04.header_determines_schema",
            "Yardl.C04.closure_exact", "Yardl.C04.closure_order_independent",
            "Yardl.C04.closure_ignores_unreachable"]


def norm_ty(t):
    k = t[0]
    if k == "enum":
        return ["enum", t[1], False, t[3]]
    if k == "rec":
        return ["rec", [[n, norm_ty(x)] for n, x in t[1]]]
    if k == "opt":
        return ["opt", norm_ty(t[1])]
    if k == "union":
        return ["union", t[1], [["", norm_ty(x)] for _, x in t[2]]]
    if k in ("vec", "arr"):
        return [k, norm_ty(t[1]), t[2]]
    if k == "map":
        return ["map", norm_ty(t[1]), norm_ty(t[2])]
    return t


def norm_proto(pj):
    return [{"name": s["name"], "ty": norm_ty(s["ty"]), "stream": s["stream"]} for s in pj]


def schemas_of(root, pkg, ybin, inproc, rng, report, what, matlab=True, expanded_p=0.25, versions=None):
    """generate (python + cpp + matlab text only) and collect the schema literal of each protocol per source."""
    d = vlib.write_package(root, pkg, rng, cpp=True, python=True, matlab=matlab, js=False, ndjson=True, expanded_p=expanded_p, versions=versions)
    rc, out, err = vlib.yardl(ybin, d, "generate")
    if rc != 0:
        return None, f"generate failed: {err[-800:]}", d
    ns = vlib.to_snake(pkg.namespace)
    py = vlib.py_schemas(os.path.join(root, "out_py"), pkg.namespace)
    res = {p: {"python": s} for p, s in py.items()}
    cpp_text = open(os.path.join(root, "out_cpp", "protocols.cc")).read()
    for m in re.finditer(r'std::string (\w+)WriterBase::schema_ = R"\((.*?)\)";', cpp_text, re.S):
        res.setdefault(m.group(1), {})["cpp"] = m.group(2)
    # the schemas of the previous versions the generated readers accept
    for m in re.finditer(r'std::vector<std::string> (\w+)WriterBase::previous_schemas_ = \{(.*?)\n\};', cpp_text, re.S):
        res.setdefault(m.group(1), {})["cpp_previous"] = re.findall(r'R"\((.*?)\)"', m.group(2), re.S)
    if matlab:
        mdir = os.path.join(root, "out_matlab", "+" + ns)
        for fn in os.listdir(mdir) if os.path.isdir(mdir) else []:
            if fn.endswith("WriterBase.m"):
                m = re.search(r"res = string\('(.*?)'\);", open(os.path.join(mdir, fn)).read(), re.S)
                if m:
                    res.setdefault(fn[:-len("WriterBase.m")], {})["matlab"] = m.group(1).replace("''", "'")
    p = subprocess.run([inproc, "dump", d], stdout=subprocess.PIPE, stderr=subprocess.PIPE, timeout=120)
    try:
        dump = json.loads(p.stdout)
        for name, info in dump.get("protocols", {}).items():
            res.setdefault(name, {})["inproc"] = info["schema"]
    except Exception:
        pass
    return res, "", d


def run(report, tier, seed):
    quick = tier == "quick"
    report.rule = ("a case = one (package, protocol) schema judged by planOfSchema / cross-target equality, or one (package, edit) pair; "
                   "distinct = distinct (model, protocol, edit); non-trivial = the protocol references at least one named type")
    rng = random.Random(seed * 613 + 4)
    lean_ok, _ = vlib.check_lean(report, "Props.C04", THEOREMS)
    if not lean_ok:
        report.violation("lean:Props.C04", {"theorem_or_correspondence": "Props.C04 does not build or audit",
                                            "log": (report.extra.get("lean_build_log") or report.extra.get("lean_axiom_log", ""))[-3000:]},
                         "no-failing-input-found")
    with vlib.Scratch("vf-c04-") as sc:
        ybin = vlib.build_yardl(sc)
        inproc = vlib.build_go_harness(sc, "inproc")
        lean = vlib.LeanDriver("wiredrv")
        n_models = 12 if quick else 150
        pkgs = [(f"r{i}", modelgen.Gen(seed * 100069 + i)) for i in range(n_models)]
        models = []
        for name, g in pkgs:
            models.append((name, g, g.gen_package()))
        models.append(("directed", modelgen.Gen(seed), modelgen.directed_package()))
        for a, b, edit in directed_pairs():
            models.append(("dp-" + edit.split(":")[1], modelgen.Gen(seed + 5), a))
        for name, g, pkg in models:
            base, err, d = schemas_of(sc.path(name), pkg, ybin, inproc, g.rng, report, name)
            if base is None:
                report.violation("generate:model", {"model": name, "error": err, "files": _files(sc.path(name))}, "")
                continue
            report.count("models")
            _plan_and_targets(report, lean, name, pkg, base, sc.path(name), seed)
            _neutral_edits(report, sc, ybin, inproc, name, g, pkg, base, rng, quick, seed)
            _affecting_edits(report, sc, ybin, inproc, name, g, pkg, base, rng, quick, seed)
        _known_finding_flags(report, sc, ybin, inproc, rng)
        lean.close()


def _files(root):
    res = {}
    for r, _, files in os.walk(root):
        if "out_" in r:
            continue
        for fn in files:
            if fn.endswith(".yml"):
                res[os.path.relpath(os.path.join(r, fn), root)] = open(os.path.join(r, fn)).read()
    return res


def _plan_and_targets(report, lean, name, pkg, schemas, root, seed):
    for proto in pkg.protocols():
        pname = proto["name"]
        srcs = schemas.get(pname, {})
        want = norm_proto(modelgen.proto_json(pkg, proto))
        nontrivial = "named" in json.dumps(proto["steps"])
        report.case(distinct_key=(name, pname) if nontrivial else None,
                    sample={"model": name, "protocol": pname, "schema": srcs.get("python", "")[:300]} if report.evaluations % 40 == 0 else None)
        report.count("schemas")
        texts = {k: v for k, v in srcs.items() if k != "cpp_previous"}
        if len(set(texts.values())) != 1 or not {"python", "cpp", "inproc"} <= set(texts):
            report.violation("schema-differs-between-targets", {"model": name, "protocol": pname, "sources": {k: v[:3000] for k, v in texts.items()},
                                                                "files": _files(root), "seed": seed},
                             "the schema text embedded by the back ends / returned by GetProtocolSchemaString is not one and the same")
            continue
        r = lean.ask({"op": "plan_of_schema", "schema": srcs["python"]})
        if "error" in r:
            report.violation("schema-does-not-determine-encoding:unresolvable", {"model": name, "protocol": pname, "planOfSchema_error": r["error"],
                                                                                 "schema": srcs["python"][:6000], "files": _files(root), "seed": seed},
                             "a reader that only sees the schema cannot reconstruct how the steps are encoded")
            continue
        got = norm_proto(r["proto"])
        if got != want:
            report.violation("schema-does-not-determine-encoding:plan-differs", {"model": name, "protocol": pname, "plan_from_schema": got, "true_plan": want,
                                                                                 "schema": srcs["python"][:6000], "files": _files(root), "seed": seed},
                             "the encoding reconstructed from the schema differs from how the model's values are actually encoded")


def _neutral_edits(report, sc, ybin, inproc, name, g, pkg, base, rng, quick, seed):
    edits = []
    # comments
    p = copy.deepcopy(pkg)
    for d in p.defs:
        d["comment"] = "a comment " + d["name"]
    edits.append(("comments", p))
    # unreferenced definitions
    p = copy.deepcopy(pkg)
    p.defs.insert(rng.randrange(len(p.defs) + 1), {"kind": "record", "name": "ZzUnused", "tparams": [], "fields": [("q", ("prim", "int32"))]})
    p.defs.insert(0, {"kind": "enum", "name": "ZzUnusedEnum", "flags": False, "base": None, "auto": True, "values": [("a", 0), ("b", 1)]})
    edits.append(("unreferenced-definitions", p))
    # definition order
    p = copy.deepcopy(pkg)
    rng.shuffle(p.defs)
    edits.append(("definition-order", p))
    # file layout
    p = copy.deepcopy(pkg)
    names = [d["name"] for d in p.defs]
    rng.shuffle(names)
    k = max(1, len(names) // 2)
    p.files = [names[:k], names[k:]] if len(names) > 1 else None
    edits.append(("file-layout", p))
    # computed fields
    p = copy.deepcopy(pkg)
    for d in p.defs:
        if d["kind"] == "record" and d["fields"]:
            d["computed"] = [("zzOne", "1"), ("zzTwo", "zzOne + 2")]
    edits.append(("computed-fields", p))
    # spelling (shorthand vs expanded, primitive aliases): rendered with a different coin
    edits.append(("spelling", copy.deepcopy(pkg)))
    if quick:
        edits = rng.sample(edits, 2)
    # block-style YAML, and a comment line in front of every line of it (definitions, fields, steps, enum values, array
    # dimensions, union cases, items/keys/values): documentation never reaches the schema
    p = copy.deepcopy(pkg)
    p.block = True
    edits.append(("block-style", p))
    p = copy.deepcopy(pkg)
    p.block, p.comment_lines = True, "doc"
    edits.append(("comments-everywhere", p))
    for k, prob in enumerate((0.5, 0.3, 0.15) if name == "directed" or not quick else (0.4,)):
        p = copy.deepcopy(pkg)
        p.block, p.comment_lines = True, ("doc", prob, seed * 31 + k)
        edits.append(("comments-on-some-nodes", p))
    for ename, p2 in edits:
        root = sc.path(f"{name}-{ename}-{edits.index((ename, p2))}")
        exp = 0.9 if ename == "spelling" else 0.25
        s2, err, d = schemas_of(root, p2, ybin, inproc, random.Random(seed + 99), report, ename, matlab=False, expanded_p=exp)
        report.case(distinct_key=(name, "neutral", ename))
        report.count(f"neutral.{ename}")
        if s2 is None:
            report.violation(f"neutral-edit-rejected:{ename}", {"model": name, "edit": ename, "error": err, "files": _files(root), "seed": seed}, "")
            continue
        for pname, srcs in base.items():
            if srcs.get("python") != s2.get(pname, {}).get("python"):
                report.violation(f"neutral-edit-changes-schema:{ename}", {"model": name, "edit": ename, "protocol": pname, "before": srcs.get("python", "")[:3000],
                                                                          "after": s2.get(pname, {}).get("python", "")[:3000], "files_after": _files(root), "seed": seed},
                                 "an edit that cannot affect encoding changed the schema text")
                break


def _affecting_edits(report, sc, ybin, inproc, name, g, pkg, base, rng, quick, seed):
    for k in range(-1, 2 if quick else 8):
        if k == -1:
            # always: an optional field appended to every record (a documented compatible change, so the package with the
            # model before the edit declared as its previous version is accepted)
            p2, edit = copy.deepcopy(pkg), "field:add-optional-field-to-every-record"
            if not any(d["kind"] == "record" and not d["tparams"] for d in p2.defs):
                continue
            for d in p2.defs:
                if d["kind"] == "record" and not d["tparams"]:
                    d["fields"] = list(d["fields"]) + [("zzAdded", ("opt", ("prim", "int32")))]
        else:
            try:
                p2, edit = neighbour(pkg, rng)
            except Exception:
                continue
        root = sc.path(f"{name}-aff{k}")
        s2, err, d = schemas_of(root, p2, ybin, inproc, random.Random(seed + 7), report, edit, matlab=False)
        if s2 is None:
            report.count("affecting.rejected-by-yardl")
            continue
        _declared_previous_version(report, sc, ybin, inproc, name, pkg, p2, base, s2, edit, k, seed)
        for proto in pkg.protocols():
            pname = proto["name"]
            p2proto = [x for x in p2.protocols() if x["name"] == pname]
            if not p2proto:
                continue
            before = json.dumps(norm_proto(modelgen.proto_json(pkg, proto)))
            after = json.dumps(norm_proto(modelgen.proto_json(p2, p2proto[0])))
            report.case(distinct_key=(name, "affecting", edit, pname))
            report.count("affecting.changed" if before != after else "affecting.unchanged-for-this-protocol")
            if before != after and base.get(pname, {}).get("python") == s2.get(pname, {}).get("python"):
                report.violation("wire-affecting-edit-keeps-schema", {"model": name, "edit": edit, "protocol": pname, "schema": base[pname]["python"][:4000],
                                                                       "files_before": _files(sc.path(name)), "files_after": _files(root), "seed": seed},
                                 "the encoding of the protocol changed but its schema text did not")


def _declared_previous_version(report, sc, ybin, inproc, name, pkg, p2, base, s2, edit, k, seed):
    """the edited model `p2` with the model before the edit declared as its previous version: the schema of the current
    version is a function of the current model alone (same text as without `versions:`), and the schemas the generated
    readers accept for the previous version are the schemas of that version's own model"""
    rootv = sc.path(f"{name}-aff{k}-versioned")
    rel = os.path.relpath(os.path.join(sc.path(name), "pkg_" + pkg.namespace), os.path.join(rootv, "pkg_" + p2.namespace))
    sv, err, d = schemas_of(rootv, p2, ybin, inproc, random.Random(seed + 7), report, edit, matlab=False, versions=[("v0", rel)])
    report.case(distinct_key=(name, "declared-previous-version", edit))
    if sv is None:
        report.count("versioned.rejected-as-incompatible")
        return
    report.count("versioned.accepted")
    replay = {"model": name, "edit": edit, "files_previous": _files(sc.path(name)), "files_current": _files(rootv), "seed": seed}
    for pname, srcs in s2.items():
        for src in ("python", "cpp", "inproc"):
            if src in srcs and srcs[src] != sv.get(pname, {}).get(src):
                report.violation(f"declaring-a-previous-version-changes-the-schema:{src}",
                                 dict(replay, protocol=pname, without_versions=srcs[src][:3000], with_versions=str(sv.get(pname, {}).get(src))[:3000]),
                                 "the schema text of the current version depends on something other than the current model")
                return
        prev = sv.get(pname, {}).get("cpp_previous")
        if prev and pname in base and base[pname].get("cpp") is not None:
            report.count("versioned.previous-schema-checked")
            if prev != [base[pname]["cpp"]]:
                report.violation("previous-schema-is-not-the-previous-version's", dict(replay, protocol=pname, previous_schemas=[x[:2000] for x in prev],
                                                                                       schema_of_previous_model=base[pname]["cpp"][:2000]),
                                 "the schema the generated reader accepts for the previous version is not the schema of that version's model")
                return


def _known_finding_flags(report, sc, ybin, inproc, rng):
    """enum <-> flags with equal values: same schema, different NDJSON encoding (documented mapping)."""
    def mk(flags):
        p = modelgen.Package("Kf")
        p.defs.append({"kind": "enum", "name": "Mode", "flags": flags, "base": "int32", "auto": False, "values": [("a", 1), ("b", 2)]})
        p.defs.append({"kind": "protocol", "name": "P", "steps": [("m", ("named", "Mode", []), False)]})
        return p
    a, _, _ = schemas_of(sc.path("kf-enum"), mk(False), ybin, inproc, rng, report, "kf", matlab=False)
    b, _, _ = schemas_of(sc.path("kf-flags"), mk(True), ybin, inproc, rng, report, "kf", matlab=False)
    report.case(distinct_key=("known-finding", "enum-vs-flags"))
    if a and b and a["P"]["python"] == b["P"]["python"]:
        report.violation("schema-does-not-record-enum-vs-flags", {"schema": a["P"]["python"],
                                                                   "ndjson_enum": '{"m":"a"}', "ndjson_flags": '{"m":["a"]}'},
                         "`Mode: !enum` and `Mode: !flags` with equal values share a schema but are written differently in NDJSON")
