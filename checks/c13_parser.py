"""C13 — the text of a shorthand type through the real participle grammar (parser.ParseType, in-process) and through the
Lean scanner + recursive-descent parser (YardlModel/TypeParser.lean): same verdict (tree / error) and, for a tree, the same
tree (parenthesised sub-types, tails in order, type arguments, vector lengths, dimension names and lengths).

Inputs: printed random trees with random white space and redundant parentheses (valid), and mutations of them (characters
of the grammar's alphabet inserted, deleted, replaced, swapped; truncations; huge integers), most of them invalid.
Inputs the model's scanner does not cover (floats, hex, leading zeros, quotes, comments - text/scanner territory) are
answered `unmodelled` by the model and are not compared; they are counted."""
import json
import random
import subprocess

NAMES = ["int", "string", "float", "Image", "T", "a", "Ns.Rec", "A.B.C", "x1", "_u", "complexfloat64", "Map"]
ALPHABET = list("()<>,?-*[]: .") + ["->", "a", "B", "1", "23", "x:", ":3", "int", " ", "  ", "()", "[]", "<>", "18446744073709551615", "18446744073709551616"]


class GoParser:
    def __init__(self, exe):
        self.p = subprocess.Popen([exe, "parsetype"], stdin=subprocess.PIPE, stdout=subprocess.PIPE)

    def ask(self, text):
        self.p.stdin.write((json.dumps({"text": text}) + "\n").encode())
        self.p.stdin.flush()
        line = self.p.stdout.readline()
        if not line:
            raise RuntimeError("parsetype harness died")
        return json.loads(line)

    def close(self):
        self.p.stdin.close()
        self.p.wait()


def gen_dim(r):
    k = r.random()
    if k < 0.25:
        return ""
    if k < 0.5:
        return r.choice(["x", "y", "chan", "d0"])
    if k < 0.75:
        return str(r.choice([0, 1, 3, 64, 2 ** 32, 2 ** 64 - 1]))
    return r.choice(["x", "y", "t"]) + r.choice([":", " : ", ": "]) + str(r.choice([1, 2, 512]))


def gen_text(r, depth):
    """printed form of a random tree; white space and redundant parentheses sprinkled in"""
    sp = lambda: r.choice(["", "", "", " ", "  "])
    if depth > 0 and r.random() < 0.2:
        base = "(" + sp() + gen_text(r, depth - 1) + sp() + ")"
    else:
        base = r.choice(NAMES)
        if depth > 0 and r.random() < 0.3:
            base += sp() + "<" + (sp() + "," + sp()).join(gen_text(r, depth - 1) for _ in range(r.choice([1, 1, 2, 3]))) + sp() + ">"
    for _ in range(r.choice([0, 0, 1, 1, 2, 3])):
        k = r.random()
        if k < 0.25:
            base += sp() + "?"
        elif k < 0.45:
            base += sp() + "*" + (sp() + str(r.choice([1, 2, 3, 10, 2 ** 40])) if r.random() < 0.5 else "")
        elif k < 0.75:
            n = r.choice([0, 1, 1, 2, 3])
            dims = [gen_dim(r) for _ in range(n)]
            if r.random() < 0.1 and dims:
                dims[0] = "(" * 2 + dims[0] + ")" * 2
            base += sp() + "[" + sp() + (sp() + "," + sp()).join(dims) + sp() + "]"
        elif depth > 0:
            base += sp() + r.choice(["->", "- >"]) + sp() + gen_text(r, depth - 1)
            break
    return base


def mutate(r, text):
    for _ in range(r.choice([1, 1, 2, 3])):
        k = r.random()
        i = r.randrange(len(text) + 1)
        if k < 0.35:
            text = text[:i] + r.choice(ALPHABET) + text[i:]
        elif k < 0.6 and text:
            j = min(len(text), i + r.choice([1, 1, 2]))
            text = text[:i] + text[j:]
        elif k < 0.8 and text:
            text = text[:i] + r.choice(ALPHABET) + text[i + 1:]
        elif k < 0.9:
            text = text[:i]
        elif len(text) > 2:
            a, b = sorted(r.sample(range(len(text)), 2))
            text = text[:a] + text[b] + text[a + 1:b] + text[a] + text[b + 1:]
    return text


DIRECTED = ["int[a.b]", "int[a.b:2]", "int[(a.b)]", "int[x, a.b]", "int[a . b]", "A.B[a]", "A.B<C.D>[c, d:2]", "int", "int?", "int*", "int*3", "int[]", "int[,]", "int[x,y]", "int[x:2,y:3]", "int[2,3]", "int[()]", "int[(x)]", "int[((x:3))]", "int[(x]", "int[x)]", "int[,,]", "int[x:]",
            "int[:3]", "a->b", "a->b->c", "a->b?", "(a->b)?", "a?->b", "a*->b*", "a- >b", "a-b", "a->", "->a", "A<B>", "A<B,C>", "A<B<C>>", "A<B>>", "A<>", "A<B,>", "A<,B>", "A<B C>",
            "A.B", "A . B", "A.", ".A", "A..B", "A.B<C.D>", "(a)", "((a))", "()", "(a", "a)", "(a)(b)", "a b", "a?*?*", "a**", "a*?", "a?3", "a*3*4", "a*18446744073709551615",
            "a*18446744073709551616", "a[18446744073709551616]", "a[x:18446744073709551616]", "", " ", "?", "*", "[", "]", "a[", "a]", "a[]]", "a[[]]", "a[b[c]]", "a[x y]", "a[x,:]",
            "a<b->c>", "a<b>->c<d>", "a->b<c>?", "a?<b>", "a<b>?<c>", "_", "_a", "a_b", "a1", "1a", "1", "a,b", "a->b,c", "a:b", "a[x:y]", "a[1:2]", "a [ x : 2 , y : 3 ] ?", "\ta\n?\r\n"]


def parser_level(report, lean, inproc, seed, n):
    go = GoParser(inproc)
    r = random.Random(seed * 100189 + 13)
    texts = list(DIRECTED)
    for i in range(n):
        t = gen_text(r, r.choice([0, 1, 2, 3]))
        texts.append(t)
        for _ in range(2):
            texts.append(mutate(r, t))
    for text in texts:
        g = go.ask(text)
        m = lean.ask({"op": "parse_type", "text": text})
        replay = {"seed": seed, "text": text, "real_parser": g, "model": {k: v for k, v in m.items() if k != "t"}}
        if m["res"] == "unmodelled":
            report.count("parser.unmodelled-by-the-scanner-model")
            continue
        report.case(distinct_key=("parse", text), sample={"text": text, "model": m["res"], "tree": m.get("tree")} if report.evaluations % 400 == 0 else None)
        if "panic" in g:
            report.violation("parser:panic", replay, "the shorthand parser panicked")
            continue
        report.count("parser.tree" if m["res"] == "tree" else "parser.error")
        if m["res"] == "tree":
            report.count("parser.canonical-tree" if m["canon"] else "parser.non-canonical-tree (parenthesised dimension)")
            if m["canon"] and not m["reparsed"]:
                report.violation("parser:model-reparse", dict(replay, theorem_or_correspondence="parse (pr s) = some s evaluated on a tree the model built"),
                                 "the Lean parser does not read back the printed form of a canonical tree it built")
        if (m["res"] == "tree") != ("tree" in g):
            report.violation("parser:verdict-differs:" + ("model-accepts" if m["res"] == "tree" else "model-rejects"), replay,
                             "the shorthand parser and its model disagree on whether the text is a type")
        elif m["res"] == "tree" and m["tree"] != g["tree"]:
            report.violation("parser:tree-differs", replay, "the shorthand parser builds a different tree than its model")
    go.close()
