"""C17 — stream contents do not depend on batching, and items are independent.

Proof: Props/C17.lean (any block partition decodes to the same items; any mixture of single/batched
reads with any capacities delivers the written items in order exactly once).
Correspondence: the same item sequence written under two random block partitions, read by generated
C++ with random CopyTo batch capacities (the output's block structure must be what the Lean model of
ReadBlocksIntoVector predicts) and by generated Python in lazy (copy_to) and list (hold) mode;
consecutive items alternate between large and minimal shapes of the same type (map keys, optional
presence, vector length, union case) so that state left behind by one item would show in the next.
"""
import json

import codeclab
import modelgen
import vlib
from checks.c01 import _files, _errclass

THEOREMS = ["Yardl.C17.batch_read_ignores_previous_contents", "Yardl.C17.blocks_irrelevant", "Yardl.C17.empty_batch_writes_nothing", "Yardl.C17.any_read_schedule_is_a_prefix",
            "Yardl.C17.any_read_schedule_delivers_all"]


def run(report, tier, seed):
    quick = tier == "quick"
    report.rule = ("a case = one (protocol, item sequence, write partition, read capacities, reader) run; items alternate "
                   "between a random large value and the minimal value of the same type; distinct = distinct "
                   "(items, partition, capacities); non-trivial = at least 2 items in some stream")
    lean_ok, _ = vlib.check_lean(report, "Props.C17", THEOREMS)
    if not lean_ok:
        report.violation("lean:Props.C17", {"theorem_or_correspondence": "Props.C17 does not build or audit",
                                            "log": (report.extra.get("lean_build_log") or report.extra.get("lean_axiom_log", ""))[-3000:]},
                         "no-failing-input-found")
    with vlib.Scratch("vf-c17-") as sc:
        ybin = vlib.build_yardl(sc)
        lean = vlib.LeanDriver("wiredrv")
        gens = [(i, modelgen.Gen(seed * 100043 + i)) for i in range(4 if quick else 30)]
        labs = codeclab.prepare_labs(sc, ybin, gens, ndjson=False, sanitize=not quick)
        dlab = codeclab.Lab(sc, ybin, 1000, modelgen.Gen(seed * 100043 + 1000), pkg=modelgen.directed_package(),
                            ndjson=False, sanitize=not quick).prepare()
        labs.append(dlab)
        # fields that can be null in every way a type can say so, also through NDJSON (one item per line, read in batches into
        # reused objects; a null field is omitted from the line)
        labs.append(codeclab.Lab(sc, ybin, 1001, modelgen.Gen(seed * 100043 + 1001, json_safe=True, cpp_json_safe=True), pkg=modelgen.nullable_package(),
                                 ndjson=True, sanitize=not quick).prepare())
        for lab in labs:
            if not lab.ok:
                report.violation(f"{lab.stage}:model", {"seed": seed, "model_index": lab.idx, "error": lab.err, "files": _files(lab)}, "")
                continue
            report.count("models")
            _exercise(report, lab, lean, 4 if quick else 12, seed)
        lean.close()


def _items(g, ty, n):
    items = []
    for i in range(n):
        v = g.gen_value(ty, 4)
        if i % 2 == 1 and g.rng.random() < 0.7:
            v = modelgen.shrink_value(ty, v)
        items.append(v)
    return items


def _exercise(report, lab, lean, n_sets, seed):
    g = lab.gen
    pyjobs, pending = [], []
    for pname, pj in lab.protos.items():
        sidx = [i for i, s in enumerate(pj) if s["stream"]]
        if not sidx:
            continue
        long_set = lab.idx == 1000 and any('"arr"' in json.dumps(pj[i]["ty"]) for i in sidx)
        for k in range(n_sets + (1 if long_set else 0)):
            vals = g.gen_step_vals(pj, stream_len=0)
            for i in sidx:
                n_items = g.rng.choice([2, 3, 5, 8, 13])
                if k == n_sets and '"arr"' in json.dumps(pj[i]["ty"]):
                    # a stream much longer than any reader's buffer (64 KiB in Python): items kept by the consumer must
                    # not change when later items are read
                    n_items = 600
                vals[i] = ["stream", _items(g, pj[i]["ty"], n_items)]
            outs = []
            for variant in range(2):
                parts = [g.gen_partition(len(v[1])) if v[0] == "stream" else [] for v in vals]
                if variant == 1 and g.rng.random() < 0.5:
                    parts = [[1] * len(v[1]) if v[0] == "stream" else [] for v in vals]
                ref = bytes.fromhex(lean.ask({"op": "enc_proto", "proto": pj, "parts": parts, "vals": vals, "schema": lab.schemas[pname]})["hex"])
                inp = lab.tmp(".ref.bin")
                open(inp, "wb").write(ref)
                bufs = [g.rng.choice([1, 2, 3, 4, 5, 7, 16]) for _ in sidx]
                ctx = {"proto": pname, "vals": vals, "parts": parts, "bufsizes": bufs, "model_index": lab.idx, "seed": seed}
                outc = lab.tmp(".cpp.bin")
                rc, err = lab.run_cpp(pname, "b", "b", inp, outc, bufs)
                _judge(report, lab, lean, pj, vals, "cpp", rc, err, outc, ctx, parts, bufs, sidx)
                if variant == 1:
                    # empty batches handed to the writer before, between and after the others (theorem empty_batch_writes_nothing)
                    oute = lab.tmp(".cpp-eb.bin")
                    rc, err = lab.run_cpp(pname, "b", "b", inp, oute, bufs, empty_batches=True)
                    report.count("runs.cpp.empty-batches")
                    _judge(report, lab, lean, pj, vals, "cpp", rc, err, oute, dict(ctx, cpp_mode="empty batches interleaved"), None, None, None)
                if sidx:
                    # the vector handed to every batch read still holds items of an earlier call (between 0 and its capacity): what is read must not depend on it
                    outp = lab.tmp(".cpp-pf.bin")
                    rc, err = lab.run_cpp(pname, "b", "b", inp, outp, bufs, prefill=True)
                    report.count("runs.cpp.prefilled-batch-vector")
                    # (the batches delivered are those of the model whatever the vector held: Yardl.C17.batch_read_ignores_previous_contents)
                    _judge(report, lab, lean, pj, vals, "cpp", rc, err, outp, dict(ctx, cpp_mode="batch vector not empty on entry (stale items of earlier calls)"), parts, bufs, sidx)
                    if lab.ndjson and variant == 1:
                        midp, outq = lab.tmp(".cpp-pf.ndjson"), lab.tmp(".cpp-pf-ndjson.bin")
                        rc, err = lab.run_cpp(pname, "b", "j", inp, midp, bufs)
                        if rc == 0:
                            rc, err = lab.run_cpp(pname, "j", "b", midp, outq, bufs, prefill=True)
                        report.count("runs.cpp.prefilled-batch-vector.ndjson")
                        _judge(report, lab, lean, pj, vals, "cpp", rc, err, outq, dict(ctx, cpp_mode="NDJSON read, batch vector not empty on entry"), None, None, None)
                if lab.ndjson and variant == 0:
                    # through NDJSON and back, the lines read in batches: an item must not depend on the item read before it
                    mid, outj = lab.tmp(".cpp.ndjson"), lab.tmp(".cpp-ndjson.bin")
                    rc, err = lab.run_cpp(pname, "b", "j", inp, mid, bufs)
                    if rc == 0:
                        rc, err = lab.run_cpp(pname, "j", "b", mid, outj, bufs)
                    report.count("runs.cpp.through-ndjson")
                    _judge(report, lab, lean, pj, vals, "cpp", rc, err, outj, dict(ctx, path="binary -> NDJSON -> binary, batched reads"), None, None, None)
                    pyjobs.append({"proto": pname, "infmt": "j", "outfmt": "b", "in": mid, "out": lab.tmp(".py-ndjson.bin")})
                    pending.append((pj, vals, pyjobs[-1]["out"], dict(ctx, py_mode="lazy", path="C++ NDJSON -> Python -> binary")))
                outp = lab.tmp(".py.bin")
                job = {"proto": pname, "infmt": "b", "outfmt": "b", "in": inp, "out": outp}
                if variant == 1:
                    job.update(mode="hold", steps=[{"name": vlib.to_snake(s["name"]), "stream": s["stream"]} for s in pj], empty_batches=(k % 2 == 0))
                pyjobs.append(job)
                pending.append((pj, vals, outp, dict(ctx, py_mode=job.get("mode", "lazy"))))
                if variant == 1 or k == 0:
                    # the same values written from a lazy producer that re-yields one object, updated in place between items
                    outr = lab.tmp(".py-reuse.bin")
                    pyjobs.append({"proto": pname, "infmt": "b", "outfmt": "b", "in": inp, "out": outr, "mode": "hold", "reuse": True,
                                   "steps": [{"name": vlib.to_snake(s["name"]), "stream": s["stream"]} for s in pj]})
                    pending.append((pj, vals, outr, dict(ctx, py_mode="lazy producer re-yielding one mutated object")))
                    # the same values handed over as one NumPy array per stream whose dtype is not the generated one (byte order, width, field order)
                    outa = lab.tmp(".py-arrays.bin")
                    pyjobs.append({"proto": pname, "infmt": "b", "outfmt": "b", "in": inp, "out": outa, "mode": "hold", "foreign_arrays": True,
                                   "steps": [{"name": vlib.to_snake(s["name"]), "stream": s["stream"]} for s in pj]})
                    pending.append((pj, vals, outa, dict(ctx, py_mode="streams written from NumPy arrays of another byte order / width / field order")))
    results = lab.run_py(pyjobs)
    for (pj, vals, outp, ctx), res in zip(pending, results):
        _judge(report, lab, lean, pj, vals, "py", res["rc"], res["exc"], outp, ctx, None, None, None)


def _judge(report, lab, lean, pj, vals, lang, rc, err, outpath, ctx, parts, bufs, sidx):
    nontrivial = any(v[0] == "stream" and len(v[1]) >= 2 for v in vals)
    report.case(distinct_key=(json.dumps(vals), json.dumps(ctx["parts"]), json.dumps(ctx["bufsizes"]), lang) if nontrivial else None,
                sample={"protocol": ctx["proto"], "parts": ctx["parts"], "bufsizes": ctx["bufsizes"], "lang": lang,
                        "n_items": [len(v[1]) for v in vals if v[0] == "stream"]} if report.evaluations % 50 == 0 else None)
    report.count(f"runs.{lang}")
    replay = dict(ctx, lang=lang, files=_files(lab))
    if rc != 0:
        report.violation(f"{lang}:raised:{_errclass(err)}", dict(replay, rc=rc, stderr=err), "")
        return
    h = open(outpath, "rb").read().hex()
    r = lean.ask({"op": "dec_proto", "proto": pj, "hex": h})
    if "error" in r or r.get("rest", 0) != 0:
        report.violation(f"{lang}:emitted-bytes-do-not-decode", dict(replay, decode=r.get("error", "trailing")), "")
        return
    got, want = modelgen.canon_stepvals(r["vals"]), modelgen.canon_stepvals(vals)
    if got != want:
        kind = "item-differs"
        for gv, wv, s in zip(got, want, pj):
            if gv != wv and s["stream"]:
                kind = "item-differs:" + ("map" if '"map"' in json.dumps(s["ty"]) else "other")
        report.violation(f"{lang}:{kind}", dict(replay, got=r["vals"] if len(json.dumps(r["vals"])) < 4000 else "(large)", first_difference=modelgen.first_diff(want, got)), "")
        return
    if lang == "cpp" and parts is not None:
        # batch sizes delivered by ReadBlocksIntoVector == block sizes the writer emitted
        bs = lean.ask({"op": "block_sizes", "proto": pj, "hex": h})
        if "sizes" in bs:
            for j, i in enumerate(sidx):
                cap = bufs[j]
                if cap <= 1:
                    want_sizes = [1] * len(vals[i][1])
                else:
                    want_sizes = lean.ask({"op": "model_batches", "part": [p for p in parts[i] if p > 0], "cap": cap})["batches"]
                report.count("batch_structure_checked")
                if bs["sizes"][i] != want_sizes:
                    report.violation("cpp:batch-structure-differs-from-model",
                                     dict(replay, step=i, model=want_sizes, impl=bs["sizes"][i],
                                          theorem_or_correspondence="BS model (ReadBlocksIntoVector) vs generated C++ CopyTo"), "")
                    return
