"""C19 — computed fields mean the same thing in every target language.

Proof: Props/C19.lean over tables regenerated from /repo on every run (typing symmetry, promotion
rules, pow, parenthesisation decision = grammar criterion).
Correspondence: (1) static types yardl assigns to `x op y` for every pair of numeric primitives
and every operator vs the Lean `binopType`; rejected combinations must be rejected; (2) nested
expressions for every (operator, operand operator, side) evaluated in generated Python and generated
C++ and, for MATLAB, re-parsed from the emitted text with MATLAB's precedence rules, vs the value /
tree of the source expression; (3) random integer expressions evaluated in generated Python and C++
vs the Lean reference evaluation.
"""
import ast
import json
import os
import random
import re
import subprocess

import gen_tables
import vlib

THEOREMS = ["Yardl.C19.common_symm", "Yardl.C19.common_idem", "Yardl.C19.binop_type_symm",
            "Yardl.C19.small_ints_promote", "Yardl.C19.pow_never_integer", "Yardl.C19.binop_numeric",
            "Yardl.C19.parentheses_correct", "Yardl.C19.fixed_width_evaluation_is_exact",
            "Yardl.C19.literal_fits_its_type", "Yardl.C19.literal_type_is_the_narrowest", "Yardl.C19.literal_refused_iff_out_of_64_bits"]
NUMERIC = ["int8", "int16", "int32", "int64", "uint8", "uint16", "uint32", "uint64", "size", "float32", "float64",
           "complexfloat32", "complexfloat64"]
OPS = {"add": "+", "sub": "-", "mul": "*", "div": "/", "pow": "**"}
PY_TYPE = {"int8": "Int8", "int16": "Int16", "int32": "Int32", "int64": "Int64", "uint8": "UInt8", "uint16": "UInt16",
           "uint32": "UInt32", "uint64": "UInt64", "size": "Size", "float32": "Float32", "float64": "Float64",
           "complexfloat32": "ComplexFloat", "complexfloat64": "ComplexDouble"}


def lean_eval(src):
    import tempfile
    with tempfile.NamedTemporaryFile("w", suffix=".lean", dir=vlib.LEAN_DIR, delete=False) as f:
        f.write(src)
        fn = f.name
    try:
        p = vlib.run(["lake", "env", "lean", fn], cwd=vlib.LEAN_DIR, timeout=600)
    finally:
        os.unlink(fn)
    return (p.stdout + p.stderr).decode()


def model_binop_table():
    """binopType from the Lean model over the regenerated tables: {(op,a,b): prim|None}."""
    src = ("import Props.C19\nopen Yardl Yardl.C19\n"
           "def pname : Prim → String\n  | .bool => \"bool\" | .int8 => \"int8\" | .int16 => \"int16\" | .int32 => \"int32\" | .int64 => \"int64\"\n"
           "  | .uint8 => \"uint8\" | .uint16 => \"uint16\" | .uint32 => \"uint32\" | .uint64 => \"uint64\" | .size => \"size\"\n"
           "  | .float32 => \"float32\" | .float64 => \"float64\" | .complexfloat32 => \"complexfloat32\" | .complexfloat64 => \"complexfloat64\"\n"
           "  | .string => \"string\" | .date => \"date\" | .time => \"time\" | .datetime => \"datetime\"\n"
           "def oname : BinOp → String | .add => \"add\" | .sub => \"sub\" | .mul => \"mul\" | .div => \"div\" | .pow => \"pow\"\n"
           "#eval do\n  for op in BinOp.all do\n    for a in Prim.all do\n      for b in Prim.all do\n"
           "        IO.println s!\"ROW {oname op} {pname a} {pname b} {match binopType T op a b with | some c => pname c | none => \"-\"}\"\n"
           "#eval IO.println s!\"ASYM {repr findAsym}\"\n")
    out = lean_eval(src)
    tab = {}
    for line in out.splitlines():
        if line.startswith("ROW "):
            _, op, a, b, c = line.split()
            tab[(op, a, b)] = None if c == "-" else c
    return tab, out


def run(report, tier, seed):
    quick = tier == "quick"
    report.rule = ("typing: every (operator, ordered pair of the 18 primitives) — exhaustive; emission: every (target, operator, "
                   "operand operator, side) — exhaustive — plus random integer expressions of depth <= 4; distinct = distinct "
                   "(expression, operand types, target); non-trivial = the expression has an operator")
    rng = random.Random(seed * 2654435761 % 2**32)
    with vlib.Scratch("vf-c19-") as sc:
        tables = gen_tables.generate(sc)
        lean_ok, log = vlib.check_lean(report, "Props.C19", THEOREMS)
        ybin = vlib.build_yardl(sc)
        if not lean_ok:
            _search_after_break(report, sc, ybin, tables)
            return
        tab, _ = model_binop_table()
        if len(tab) != 5 * 18 * 18:
            raise RuntimeError("could not evaluate the Lean binop table")
        lean = vlib.LeanDriver("wiredrv")
        _typing(report, sc, ybin, tab, rng, quick, seed)
        _emission(report, sc, ybin, lean, rng, quick, seed)
        _float_division(report, sc, ybin)
        _narrow_operands(report, sc, ybin)
        _conversions(report, sc, ybin)
        _directed_semantics(report, sc, ybin)
        _literal_types(report, sc, ybin, lean, rng, quick)
        _wide_operands(report, sc, ybin, lean, seed)
        lean.close()


def _search_after_break(report, sc, ybin, tables):
    """A table theorem no longer checks: look for the failing pair on the implementation."""
    ct = tables["commonType"]
    for a in ct:
        for b in ct[a]:
            if ct[a][b] != ct[b][a]:
                types = _types_of(sc, ybin, {"x": f"{_fld(a)} + {_fld(b)}", "y": f"{_fld(b)} + {_fld(a)}"}, [a, b], "asym")
                report.violation(f"typing:asymmetric:{a}:{b}",
                                 {"theorem": "Yardl.C19.common_symm", "pair": [a, b], "GetCommonType(a,b)": ct[a][b],
                                  "GetCommonType(b,a)": ct[b][a], "yardl_static_types": types,
                                  "model": f"computedFields x: p_{a} + p_{b}; y: p_{b} + p_{a}"},
                                 "static type depends on operand order")
                return
    report.violation("lean:Props.C19", {"theorem_or_correspondence": "Props.C19 does not build or audit over the regenerated tables",
                                        "log": (report.extra.get("lean_build_log") or report.extra.get("lean_axiom_log", ""))[-3000:]},
                     "no-failing-input-found")


def _pkg(sc, name, fields, computed, cpp=False, aliases=()):
    d = sc.path(name, "m")
    os.makedirs(d, exist_ok=True)
    man = [f"namespace: Cf", "python:", "  outputDir: ../py", "matlab:", "  outputDir: ../matlab"]
    if cpp:
        man += ["cpp:", "  sourcesOutputDir: ../cpp", "  generateCMakeLists: false", "  generateHDF5: false", "  generateNDJson: false",
                "  overrideArrayHeader: vf_ndarray.h"]
    open(os.path.join(d, "_package.yml"), "w").write("\n".join(man) + "\n")
    lines = [f"{a}: {t}" for a, t in aliases] + ["R: !record", "  fields:"]
    for n, t in fields:
        lines.append(f"    {n}: {t}")
    lines.append("  computedFields:")
    for n, e in computed.items():
        lines.append(f"    {n}: \"{e}\"")
    open(os.path.join(d, "model.yml"), "w").write("\n".join(lines) + "\n")
    return d


def _fld(p):
    return "p" + p.capitalize()


def _types_of(sc, ybin, computed, prims, name):
    d = _pkg(sc, name, [(_fld(p), p) for p in prims], computed)
    rc, out, err = vlib.yardl(ybin, d, "generate")
    if rc != 0:
        return {"error": err[-500:]}
    text = open(os.path.join(os.path.dirname(d), "py", "cf", "types.py")).read()
    res = {}
    for m in re.finditer(r"def (\w+)\(self\) -> yardl\.(\w+):", text):
        res[m.group(1)] = m.group(2)
    return res


def _typing(report, sc, ybin, tab, rng, quick, seed):
    valid = {k: v for k, v in tab.items() if v is not None}
    computed = {}
    keymap = {}
    for i, ((op, a, b), c) in enumerate(sorted(valid.items())):
        n = f"c{i}"
        computed[n] = f"{_fld(a)} {OPS[op]} {_fld(b)}"
        keymap[n] = (op, a, b, c)
    types = _types_of(sc, ybin, computed, NUMERIC, "typing")
    if "error" in types:
        report.violation("typing:valid-combination-rejected", {"error": types["error"], "n_fields": len(computed)},
                         "yardl rejects a combination the model types")
        return
    for n, (op, a, b, c) in keymap.items():
        got = types.get(vlib.to_snake(n), types.get(n))
        report.case(distinct_key=("type", op, a, b), sample={"expr": computed[n], "model_type": c, "yardl": got} if n in ("c0", "c100") else None)
        report.count("typing.valid")
        if got != PY_TYPE[c]:
            report.violation(f"typing:static-type-differs:{op}", {"expr": computed[n], "operand_types": [a, b], "model": c, "yardl_python_annotation": got},
                             "static type of a computed field differs from the model over the regenerated tables")
    _typing_aliased(report, sc, ybin, valid)
    invalid = [k for k, v in tab.items() if v is None]
    rng.shuffle(invalid)
    for (op, a, b) in invalid[: (12 if quick else 150)]:
        d = _pkg(sc, f"inv_{op}_{a}_{b}", [(_fld(p), p) for p in sorted({a, b})], {"x": f"{_fld(a)} {OPS[op]} {_fld(b)}"})
        rc, out, err = vlib.yardl(ybin, d, "validate")
        report.case(distinct_key=("invalid", op, a, b))
        report.count("typing.invalid")
        if rc == 0:
            report.violation(f"typing:ill-typed-accepted:{op}", {"expr": f"p_{a} {OPS[op]} p_{b}", "operand_types": [a, b]},
                             "an arithmetic expression with no common type is accepted")


def _typing_aliased(report, sc, ybin, valid):
    """the same table with every operand declared through a named type (alias, and alias of the alias): the static type of
    `x op y` depends on the primitives the operands resolve to, not on how they are named, and not on whether both operands
    are the same field"""
    alias = lambda p: "A" + p.capitalize()
    aliases = [(alias(p), p) for p in NUMERIC] + [("B" + p.capitalize(), alias(p)) for p in NUMERIC]
    fields = [(_fld(p), alias(p)) for p in NUMERIC] + [("q" + p.capitalize(), alias(p)) for p in NUMERIC] + [("r" + p.capitalize(), "B" + p.capitalize()) for p in NUMERIC]
    computed, keymap = {}, {}
    i = 0
    for (op, a, b), c in sorted(valid.items()):
        forms = [f"{_fld(a)} {OPS[op]} {_fld(b)}", f"{_fld(a)} {OPS[op]} r{b.capitalize()}"]
        if a == b:
            forms.append(f"{_fld(a)} {OPS[op]} q{b.capitalize()}")
        for e in forms:
            n = f"d{i}"
            i += 1
            computed[n] = e
            keymap[n] = (op, a, b, c)
    d = _pkg(sc, "typing_aliased", fields, computed, aliases=aliases)
    rc, out, err = vlib.yardl(ybin, d, "generate")
    if rc != 0:
        report.violation("typing:valid-combination-rejected:aliased", {"error": err[-800:], "n_fields": len(computed)}, "yardl rejects a combination the model types")
        return
    text = open(os.path.join(os.path.dirname(d), "py", "cf", "types.py")).read()
    back = {PY_TYPE[p]: PY_TYPE[p] for p in NUMERIC}
    for a, p in aliases:
        back[a] = PY_TYPE[p if p in PY_TYPE else p[1:].lower()]
    types = {m.group(1): m.group(2) for m in re.finditer(r"def (\w+)\(self\) -> (?:yardl\.)?(\w+):", text)}
    for n, (op, a, b, c) in keymap.items():
        got = types.get(vlib.to_snake(n), types.get(n))
        report.case(distinct_key=("type-aliased", computed[n]))
        report.count("typing.valid-aliased")
        if back.get(got) != PY_TYPE[c]:
            report.violation(f"typing:static-type-differs:{op}:aliased-operands", {"expr": computed[n], "operand_types": [a, b], "model": c, "yardl_python_annotation": got,
                                                                                 "declared_through": "aliases A<P>: <p>, B<P>: A<P>"},
                             "static type of a computed field over aliased operands differs from the model over the regenerated tables")


# ----------------------------------------------------------------------------- emission

def _src(e):
    """Fully parenthesised yardl source of an expression tree."""
    k = e[0]
    if k == "lit":
        return str(e[1]) if e[1] >= 0 else f"(0 - {-e[1]})"
    if k == "var":
        return "abcdefgh"[e[1]]
    if k == "neg":
        return f"(-{_src(e[1])})"
    return f"({_src(e[2])} {OPS[e[1]]} {_src(e[3])})"


def _py_tree(node):
    """CPython AST of an emitted return expression -> our tree (conversions stripped)."""
    if isinstance(node, ast.BinOp):
        op = {ast.Add: "add", ast.Sub: "sub", ast.Mult: "mul", ast.FloorDiv: "div", ast.Div: "div", ast.Pow: "pow"}[type(node.op)]
        return ["bin", op, _py_tree(node.left), _py_tree(node.right)]
    if isinstance(node, ast.UnaryOp):
        return ["neg", _py_tree(node.operand)]
    if isinstance(node, ast.Call) and len(node.args) == 1:
        return _py_tree(node.args[0])
    if isinstance(node, ast.Attribute):
        return ["var", "abcdefgh".index(node.attr)]
    if isinstance(node, ast.Constant):
        return ["lit", node.value]
    raise ValueError(ast.dump(node))


def _strip(e):
    if e[0] == "neg":
        return ["neg", _strip(e[1])]
    if e[0] == "bin":
        return ["bin", e[1], _strip(e[2]), _strip(e[3])]
    return e


MATLAB_PREC = {"+": (1, "add"), "-": (1, "sub"), ".*": (2, "mul"), "./": (2, "div"), "^": (3, "pow")}


def _matlab_tree(text):
    """Parse an emitted MATLAB expression with MATLAB's rules: all binary operators left-associative,
    ^ binds tighter than .* ./ which bind tighter than + -. Conversions `int32(x)` are stripped."""
    toks = re.findall(r"\.\*|\./|\^|[-+()]|[A-Za-z_][A-Za-z_0-9.]*|\d+", text)
    pos = [0]

    def peek():
        return toks[pos[0]] if pos[0] < len(toks) else None

    def nxt():
        pos[0] += 1
        return toks[pos[0] - 1]

    def atom():
        t = nxt()
        if t == "(":
            e = expr(1)
            assert nxt() == ")"
            return e
        if t == "-":
            return ["neg", atom()]
        if peek() == "(":       # conversion / call: name(expr)
            nxt()
            e = expr(1)
            assert nxt() == ")"
            return e
        if t.isdigit():
            return ["lit", int(t)]
        return ["var", "abcdefgh".index(t.split(".")[-1])]

    def expr(minp):
        lhs = atom()
        while peek() in MATLAB_PREC and MATLAB_PREC[peek()][0] >= minp:
            p, name = MATLAB_PREC[nxt()]
            rhs = expr(p + 1)   # left-associative
            lhs = ["bin", name, lhs, rhs]
        return lhs
    return expr(1)


def _emission(report, sc, ybin, lean, rng, quick, seed):
    ops = list(OPS)
    exprs = {}
    # exhaustive (op, child, side)
    for op in ops:
        for ch in ops:
            exprs[f"l{op.capitalize()}{ch.capitalize()}"] = ["bin", op, ["bin", ch, ["var", 0], ["var", 1]], ["var", 2]]
            exprs[f"r{op.capitalize()}{ch.capitalize()}"] = ["bin", op, ["var", 0], ["bin", ch, ["var", 1], ["var", 2]]]
    # random integer expressions (no pow; division only by positive literals so that values are defined)
    def gen(depth):
        if depth == 0 or rng.random() < 0.25:
            return ["var", rng.randrange(4)] if rng.random() < 0.7 else ["lit", rng.choice([1, 2, 3, 5, 7, 10])]
        op = rng.choice(["add", "sub", "mul", "div", "add", "sub"])
        l = gen(depth - 1)
        r = ["lit", rng.choice([1, 2, 3, 5, 7])] if op == "div" else gen(depth - 1)
        return ["bin", op, l, r]
    for i in range(40 if quick else 400):
        exprs[f"x{i}"] = gen(4)
    exprs["kfIntDiv"] = ["bin", "div", ["bin", "sub", ["bin", "sub", ["var", 1], ["var", 2]], ["var", 0]], ["lit", 3]]  # known finding witness
    fields = [(c, "int") for c in "abcd"]
    d = _pkg(sc, "emit", fields, {n: _src(e)[1:-1] if _src(e).startswith("(") else _src(e) for n, e in exprs.items()}, cpp=True)
    rc, out, err = vlib.yardl(ybin, d, "generate")
    if rc != 0:
        report.violation("emission:model-rejected", {"error": err[-1500:]}, "")
        return
    root = os.path.dirname(d)
    # --- Python: parse tree + evaluate
    pytext = open(os.path.join(root, "py", "cf", "types.py")).read()
    envs = [[7, 3, 2, 5], [40, 4, 2, 9], [2, 3, 2, 1], [100, 7, 3, 11], [9, 2, 4, 6]]
    pyvals = _py_values(root, list(exprs), envs)
    # integer division by zero is undefined in the source language and traps in C++: such (field, env) pairs are not evaluated there
    undefined = {(n, tuple(env)) for n, e in exprs.items() for env in envs if "value" not in lean.ask({"op": "eval", "expr": e, "env": env})}
    cppvals = _cpp_values(root, list(exprs), envs, sc, undefined)
    mtext = open(os.path.join(root, "matlab", "+cf", "R.m")).read()
    for n, e in exprs.items():
        m = re.search(r"def %s\(self\)[^\n]*\n\s+return (.*)\n" % re.escape(vlib.to_snake(n)), pytext)
        want_tree = _strip(e)
        for tgt in ("python", "matlab"):
            report.case(distinct_key=("tree", n, json.dumps(e), tgt), sample={"source": _src(e), "target": tgt} if n in ("rSubSub", "lPowPow") else None)
            report.count(f"emission.tree.{tgt}")
            try:
                if tgt == "python":
                    got_tree = _py_tree(ast.parse(m.group(1), mode="eval").body)
                    emitted = m.group(1)
                else:
                    mm = re.search(r"function res = %s\(self\)\s*\n\s*res = (.*);" % re.escape(vlib.to_snake(n)), mtext)
                    emitted = mm.group(1)
                    got_tree = _matlab_tree(emitted)
            except Exception as ex:  # noqa
                report.violation(f"emission:unparsable:{tgt}", {"field": n, "source": _src(e), "error": repr(ex)}, "")
                continue
            if got_tree != want_tree:
                report.violation(f"emission:tree-differs:{tgt}", {"field": n, "source": _src(e), "emitted": emitted,
                                                                   "parsed_as": got_tree, "expected": want_tree},
                                 f"the {tgt} parser groups the emitted expression differently from the source expression")
        # values (integer fragment only)
        if any(_has_pow(e) for _ in [0]):
            continue
        for env in envs:
            r = lean.ask({"op": "eval", "expr": e, "env": env})
            if "value" not in r:
                continue
            want = r["value"]
            if not (-2**31 <= want < 2**31) or _overflows(e, env):
                continue
            for tgt, vals in (("python", pyvals), ("cpp", cppvals)):
                if vals is None:
                    continue
                got = vals.get((n, tuple(env)))
                report.case(distinct_key=("value", n, tuple(env), tgt))
                report.count(f"emission.value.{tgt}")
                if got != want:
                    key = f"emission:value-differs:{tgt}"
                    if tgt == "python" and got == _floor_eval(e, env):
                        # integer `/` is emitted as `//` (floor) in Python, `/` (truncation) in C++
                        key = "emission:python-integer-division-floors"
                    report.violation(key, {"field": n, "source": _src(e), "env": dict(zip("abcd", env)),
                                           "reference": want, "got": got},
                                     f"generated {tgt} computes a different value")


def _floor_eval(x, env):
    if x[0] == "lit":
        return x[1]
    if x[0] == "var":
        return env[x[1]]
    if x[0] == "neg":
        return -_floor_eval(x[1], env)
    l, r = _floor_eval(x[2], env), _floor_eval(x[3], env)
    return {"add": l + r, "sub": l - r, "mul": l * r, "div": l // r if r else 0}[x[1]]


def _float_division(report, sc, ybin):
    """Floating-point division and pow must agree between Python and C++ (exact dyadic values)."""
    cases = {"fHalf": ("f / 2.0", 0.5), "fMix": ("(f + g) / 4.0", 1.0), "fSq": ("g ** 2.0", 9.0), "fNested": ("f / (g / 1.5)", 0.5),
             "fIntDiv": ("f / 2", 0.5)}
    d = _pkg(sc, "fdiv", [("f", "double"), ("g", "double")], {n: e for n, (e, _) in cases.items()}, cpp=True)
    rc, out, err = vlib.yardl(ybin, d, "generate")
    if rc != 0:
        report.violation("emission:model-rejected", {"error": err[-800:]}, "")
        return
    root = os.path.dirname(d)
    script = ("import sys, json\nsys.path.insert(0, %r)\nimport cf\nr = cf.R(f=1.0, g=3.0)\n"
              "print(json.dumps({n: float(getattr(r, n)()) for n in %r}))\n") % (os.path.join(root, "py"), [vlib.to_snake(n) for n in cases])
    p = subprocess.run(["python3-vt", "-c", script], stdout=subprocess.PIPE, stderr=subprocess.PIPE, timeout=120)
    py = json.loads(p.stdout) if p.returncode == 0 else {}
    from formatting_shim import to_pascal
    main = ['#include <iostream>', '#include <iomanip>', '#include "types.h"', "int main() { cf::R r; r.f = 1.0; r.g = 3.0; std::cout << std::setprecision(17);"]
    for n in cases:
        main.append('  std::cout << "%s=" << static_cast<double>(r.%s()) << "\\n";' % (n, to_pascal(n)))
    main.append("}")
    cppdir = os.path.join(root, "cpp")
    open(os.path.join(cppdir, "cf_main.cc"), "w").write("\n".join(main))
    exe = os.path.join(root, "cfmain")
    pc = vlib.run(["g++", "-std=c++17", "-O0", "-w", "-I", os.path.join(vlib.HARNESS, "cpp"), "-I", cppdir, os.path.join(cppdir, "cf_main.cc"),
                   os.path.join(cppdir, "types.cc"), "-o", exe], timeout=600)
    cpp = {}
    if pc.returncode == 0:
        for line in subprocess.run([exe], stdout=subprocess.PIPE, timeout=60).stdout.decode().splitlines():
            k, v = line.split("=")
            cpp[k] = float(v)
    for n, (e, want) in cases.items():
        for tgt, got in (("python", py.get(vlib.to_snake(n))), ("cpp", cpp.get(n))):
            report.case(distinct_key=("float", n, tgt), sample={"source": e, "target": tgt, "expected": want} if n == "fHalf" else None)
            report.count(f"emission.float.{tgt}")
            if got != want:
                report.violation(f"emission:value-differs:{tgt}", {"source": e, "env": {"f": 1.0, "g": 3.0}, "reference": want, "got": got},
                                 f"generated {tgt} computes a different floating-point value")


def _conversions(report, sc, ybin):
    """explicit conversions (`x as T`) inside arithmetic: a conversion of a floating-point value to an integer type truncates (toward zero), whatever
    the value is used for afterwards (multiplied by a float, converted back, raised to a power); reference = the documented meaning, evaluated
    exactly on dyadic values; every target must yield it"""
    import math
    env = {"f": 2.75, "g": -7.5, "h": 100.5, "i": 5, "k": -3}
    INTS = {"int8", "int16", "int32", "int64", "uint8", "uint16", "uint32", "uint64"}

    def src(e):
        k = e[0]
        if k == "var":
            return e[1]
        if k == "lit":
            return repr(e[1])
        if k == "as":
            return f"({src(e[1])} as {e[2]})"
        return f"({src(e[2])} {e[1]} {src(e[3])})"

    def ev(e):
        """(value, is_float)"""
        k = e[0]
        if k == "var":
            return env[e[1]], isinstance(env[e[1]], float)
        if k == "lit":
            return e[1], isinstance(e[1], float)
        if k == "as":
            v, _ = ev(e[1])
            if e[2] in INTS:
                return math.trunc(v), False
            return float(v), True
        (a, fa), (b, fb) = ev(e[2]), ev(e[3])
        op = e[1]
        if op == "**":
            return float(a) ** float(b), True
        if fa or fb:
            a, b = float(a), float(b)
            return {"+": a + b, "-": a - b, "*": a * b, "/": a / b}[op], True
        if op == "/":
            return abs(a) // abs(b) * (1 if (a < 0) == (b < 0) else -1), False
        return {"+": a + b, "-": a - b, "*": a * b}[op], False
    V = lambda n: ("var", n)
    AS = lambda e, t: ("as", e, t)
    B = lambda op, l, r: ("bin", op, l, r)
    L = lambda x: ("lit", x)
    exprs = {}
    n = 0
    # (no 64-bit targets here: yardl defines no operator between int64 / uint64 and a floating-point operand)
    for var, types in (("f", ["int32", "int8", "uint8", "uint16"]), ("g", ["int32", "int16", "int8"]), ("h", ["int32", "uint8", "int16"])):
        for t in types:
            c = AS(V(var), t)
            for consumer in (lambda x: B("*", x, L(0.5)), lambda x: B("+", x, L(0.25)), lambda x: B("-", V(var), x), lambda x: B("/", x, L(2.0)), lambda x: B("**", x, L(2.0)),
                             lambda x: AS(x, "float64"), lambda x: AS(x, "float32"), lambda x: B("+", x, L(1)), lambda x: B("*", x, V("i")), lambda x: B("-", x, V("f")),
                             lambda x: AS(AS(x, "float64"), "int32"), lambda x: B("*", AS(x, "float64"), L(0.5)), lambda x: x):
                n += 1
                exprs[f"c{n}"] = consumer(c)
    # controls: conversions stacked on an integer, implicit promotions
    for e in (AS(AS(V("i"), "int64"), "float64"), B("/", AS(V("i"), "float64"), L(2.0)), B("*", V("i"), L(0.5)), AS(B("/", AS(V("k"), "float64"), L(2.0)), "int32"), B("+", AS(V("k"), "int64"), V("i"))):
        n += 1
        exprs[f"c{n}"] = e
    want = {}
    for name, e in list(exprs.items()):
        try:
            v, isf = ev(e)
        except (OverflowError, ZeroDivisionError):
            del exprs[name]
            continue
        want[name] = float(v)
    d = _pkg(sc, "conv", [("f", "double"), ("g", "double"), ("h", "float"), ("i", "int"), ("k", "int")], {nm: src(e)[1:-1] if src(e).startswith("(") and e[0] == "bin" else src(e) for nm, e in exprs.items()}, cpp=True)
    rc, out, err = vlib.yardl(ybin, d, "generate")
    if rc != 0:
        report.violation("emission:model-rejected", {"error": err[-800:], "what": "conversions"}, "")
        return
    root = os.path.dirname(d)
    script = ("import sys, json\nsys.path.insert(0, %r)\nimport cf\nr = cf.R(f=2.75, g=-7.5, h=100.5, i=5, k=-3)\nres = {}\n"
              "for n in %r:\n    try:\n        res[n] = float(getattr(r, n)())\n    except Exception as e:\n        res[n] = 'EXC ' + type(e).__name__\n"
              "print(json.dumps(res))\n") % (os.path.join(root, "py"), [vlib.to_snake(x) for x in exprs])
    p = subprocess.run(["python3-vt", "-W", "ignore", "-c", script], stdout=subprocess.PIPE, stderr=subprocess.PIPE, timeout=120)
    py = json.loads(p.stdout) if p.returncode == 0 else None
    if py is None:
        report.violation("emission:python-conversion-run-failed", {"stderr": p.stderr.decode()[-1200:]}, "")
    from formatting_shim import to_pascal
    main = ['#include <iostream>', '#include <iomanip>', '#include "types.h"', "int main() { cf::R r; r.f = 2.75; r.g = -7.5; r.h = 100.5f; r.i = 5; r.k = -3; std::cout << std::setprecision(17);"]
    for nm in exprs:
        main.append('  std::cout << "%s=" << static_cast<double>(r.%s()) << "\\n";' % (nm, to_pascal(nm)))
    main.append("}")
    cppdir = os.path.join(root, "cpp")
    open(os.path.join(cppdir, "cf_main.cc"), "w").write("\n".join(main))
    exe = os.path.join(root, "cfmain")
    pc = vlib.run(["g++", "-std=c++17", "-O0", "-w", "-I", os.path.join(vlib.HARNESS, "cpp"), "-I", cppdir, os.path.join(cppdir, "cf_main.cc"),
                   os.path.join(cppdir, "types.cc"), "-o", exe], timeout=600)
    cpp = None
    if pc.returncode == 0:
        cpp = {}
        for line in subprocess.run([exe], stdout=subprocess.PIPE, timeout=60).stdout.decode().splitlines():
            k2, v2 = line.split("=")
            cpp[k2] = float(v2)
    else:
        report.violation("emission:cpp-conversion-compile-failed", {"log": (getattr(pc, "stderr", b"") or b"").decode(errors="replace")[-1500:]}, "")
    for nm, e in exprs.items():
        for tgt, got in (("python", py.get(vlib.to_snake(nm)) if py is not None else None), ("cpp", cpp.get(nm) if cpp is not None else None)):
            if (py if tgt == "python" else cpp) is None:
                continue
            report.case(distinct_key=("conversion", nm, tgt), sample={"source": src(e), "target": tgt, "expected": want[nm]} if nm == "c1" else None)
            report.count(f"emission.conversion.{tgt}")
            if got != want[nm]:
                report.violation(f"emission:value-differs:{tgt}:conversions", {"source": src(e), "env": env, "reference": want[nm], "got": got},
                                 f"generated {tgt} does not compute the documented value of an expression with explicit conversions")


def _directed_semantics(report, sc, ybin):
    """expressions whose meaning hinges on how a target language groups or dispatches them: a negated base of a power, !switch over a single type with a
    type / discard / declaration pattern; reference = the source language's meaning (`-f ** 2` is `(-f) ** 2`: negation binds tighter than every binary operator)"""
    cases = {"negSquare": ("-f ** 2.0", 7.5625), "negCube": ("-f ** 3.0", -20.796875), "negTimes": ("-f * 2.0", -5.5), "negPlus": ("-f + 1.0", -1.75), "negOfSum": ("-(f + 1.0) ** 2.0", 14.0625),
             "squareOfNegInt": ("-i ** 2", 25.0), "minusNeg": ("1.0 - -f", 3.75)}
    raw = {"swType": ("\n      !switch i:\n        int: 42", 42.0), "swDiscard": ("\n      !switch i:\n        _: 7", 7.0), "swDecl": ("\n      !switch i:\n        int x: x + 1", 6.0),
           "swFloat": ("\n      !switch f:\n        double: f * 2.0", 5.5)}
    d = sc.path("sem", "m")
    os.makedirs(d, exist_ok=True)
    man = ["namespace: Cf", "python:", "  outputDir: ../py", "matlab:", "  outputDir: ../matlab", "cpp:", "  sourcesOutputDir: ../cpp", "  generateCMakeLists: false", "  generateHDF5: false",
           "  generateNDJson: false", "  overrideArrayHeader: vf_ndarray.h"]
    open(os.path.join(d, "_package.yml"), "w").write("\n".join(man) + "\n")
    lines = ["R: !record", "  fields:", "    f: double", "    i: int", "  computedFields:"]
    lines += [f"    {n}: \"{e}\"" for n, (e, _) in cases.items()] + [f"    {n}: {e}" for n, (e, _) in raw.items()]
    open(os.path.join(d, "model.yml"), "w").write("\n".join(lines) + "\n")
    rc, out, err = vlib.yardl(ybin, d, "generate")
    if rc != 0:
        report.violation("emission:model-rejected", {"error": err[-800:], "what": "directed semantics"}, "")
        return
    root = os.path.dirname(d)
    allc = {**cases, **raw}
    script = ("import sys, json\nsys.path.insert(0, %r)\nimport cf\nr = cf.R(f=2.75, i=5)\nres = {}\n"
              "for n in %r:\n    try:\n        res[n] = float(getattr(r, n)())\n    except Exception as e:\n        res[n] = 'EXC ' + type(e).__name__\n"
              "print(json.dumps(res))\n") % (os.path.join(root, "py"), [vlib.to_snake(x) for x in allc])
    p = subprocess.run(["python3-vt", "-W", "ignore", "-c", script], stdout=subprocess.PIPE, stderr=subprocess.PIPE, timeout=120)
    py = json.loads(p.stdout) if p.returncode == 0 else {}
    from formatting_shim import to_pascal
    main = ['#include <iostream>', '#include <iomanip>', '#include "types.h"', "int main() { cf::R r; r.f = 2.75; r.i = 5; std::cout << std::setprecision(17);"]
    for n in allc:
        main.append('  std::cout << "%s=" << static_cast<double>(r.%s()) << "\\n";' % (n, to_pascal(n)))
    main.append("}")
    cppdir = os.path.join(root, "cpp")
    open(os.path.join(cppdir, "cf_main.cc"), "w").write("\n".join(main))
    exe = os.path.join(root, "cfmain")
    pc = vlib.run(["g++", "-std=c++17", "-O0", "-w", "-I", os.path.join(vlib.HARNESS, "cpp"), "-I", cppdir, os.path.join(cppdir, "cf_main.cc"),
                   os.path.join(cppdir, "types.cc"), "-o", exe], timeout=600)
    cpp = {}
    if pc.returncode == 0:
        for line in subprocess.run([exe], stdout=subprocess.PIPE, timeout=60).stdout.decode().splitlines():
            k2, v2 = line.split("=")
            cpp[k2] = float(v2)
    # MATLAB cannot be run here: the emitted text of a negated power must keep the negation together
    mtext = open(os.path.join(root, "matlab", "+cf", "R.m")).read()
    for n in ("negSquare", "negCube", "negOfSum"):
        mm = re.search(r"function res = %s\(self\)\s*\n\s*res = (.*);" % re.escape(vlib.to_snake(n)), mtext)
        report.case(distinct_key=("semantics", n, "matlab"))
        if not mm or not re.match(r"^\(-\(.*\)\)\s*\.?\^", mm.group(1).strip()):
            report.violation("emission:value-differs:matlab:negated-power", {"field": n, "source": cases[n][0], "emitted": mm.group(1) if mm else None},
                             "MATLAB reads -(x) ^ y as -(x ^ y): the negated base must be parenthesised as a whole")
    for n, (e, want) in allc.items():
        for tgt, got in (("python", py.get(vlib.to_snake(n))), ("cpp", cpp.get(n))):
            report.case(distinct_key=("semantics", n, tgt), sample={"source": e.strip(), "target": tgt, "expected": want} if n == "negSquare" else None)
            report.count(f"emission.semantics.{tgt}")
            if got != want:
                report.violation(f"emission:value-differs:{tgt}:directed-semantics", {"field": n, "source": e.strip(), "env": {"f": 2.75, "i": 5}, "reference": want, "got": got},
                                 f"generated {tgt} computes a different value")


def _literal_types(report, sc, ybin, lean, rng, quick):
    """a computed field that is an integer literal: the type the front end gives it is the return type of the generated C++ method, its value what C++
    and Python return. Reference: `litType` (narrowest type of the literal's signedness that holds it; refused outside 64 bits), at every edge of every width
    and at random points of every band"""
    edges = []
    for b in (8, 16, 32, 64):
        edges += [2 ** b - 1, 2 ** b, 2 ** b - 2, -(2 ** (b - 1)), -(2 ** (b - 1)) - 1, -(2 ** (b - 1)) + 1, -(2 ** b) + 1, -(2 ** b), 2 ** (b - 1) - 1, 2 ** (b - 1)]
    lits = sorted(set(edges + [0, 1, -1, 200, -200, -255, 40000, -40000, -65535, 3000000000, -3000000000, -4294967295, 10 ** 19, -(10 ** 19)]
                      + [s_ * rng.randrange(2 ** lo, 2 ** hi) for lo, hi in ((0, 7), (7, 8), (8, 15), (15, 16), (16, 31), (31, 32), (32, 63), (63, 64)) for s_ in (1, -1)
                         for _ in range(1 if quick else 6)]))
    want = {}
    for n in lits:
        r = lean.ask({"op": "lit_type", "n": n})
        want[n] = None if r.get("rejected") else (("int" if r["signed"] else "uint") + str(r["bits"]))
    name = lambda n: ("neg" if n < 0 else "pos") + "".join(chr(97 + int(ch)) for ch in str(abs(n)))     # digits as letters: one word in every target's spelling
    ok_lits = [n for n in lits if want[n] is not None]
    d = sc.path("lits", "m")
    os.makedirs(d, exist_ok=True)
    man = ["namespace: Lt", "python:", "  outputDir: ../py", "cpp:", "  sourcesOutputDir: ../cpp", "  generateCMakeLists: false", "  generateHDF5: false",
           "  generateNDJson: false", "  overrideArrayHeader: vf_ndarray.h"]
    open(os.path.join(d, "_package.yml"), "w").write("\n".join(man) + "\n")
    # each refused literal alone: the package must be rejected for it
    for n in [x for x in lits if want[x] is None]:
        open(os.path.join(d, "model.yml"), "w").write(f"R: !record\n  fields:\n    i: int\n  computedFields:\n    c: {n}\n")
        rc, out, err = vlib.yardl(ybin, d, "validate")
        report.case(distinct_key=("literal-refused", n))
        report.count("literals.refused")
        if rc == 0 or "too large" not in err:
            report.violation("literal:accepted-outside-64-bits", {"literal": n, "rc": rc, "stderr": err[-400:]}, "an integer literal that no 64-bit type holds is not refused")
    lines = ["R: !record", "  fields:", "    i: int", "  computedFields:"] + [f"    {name(n)}: {n}" for n in ok_lits]
    # the literal as a case of a switch and next to a narrow operand keeps its own type or the common one
    open(os.path.join(d, "model.yml"), "w").write("\n".join(lines) + "\n")
    rc, out, err = vlib.yardl(ybin, d, "generate")
    if rc != 0:
        report.violation("literal:model-rejected", {"error": err[-800:], "literals": ok_lits}, "")
        return
    root = os.path.dirname(d)
    from formatting_shim import to_pascal
    th = open(os.path.join(root, "cpp", "types.h")).read()
    cpp_ty = {"int8": "int8_t", "int16": "int16_t", "int32": "int32_t", "int64": "int64_t", "uint8": "uint8_t", "uint16": "uint16_t", "uint32": "uint32_t", "uint64": "uint64_t"}
    for n in ok_lits:
        m = re.search(r"^\s*([A-Za-z0-9_:]+) %s\(\) const" % re.escape(to_pascal(name(n))), th, re.M)
        report.case(distinct_key=("literal-type", n), sample={"literal": n, "type": want[n]} if n in (-200, 256) else None)
        report.count("literals.typed")
        if not m or m.group(1) != cpp_ty[want[n]]:
            report.violation("literal:type-differs", {"literal": n, "model_type": want[n], "cpp_return_type": m.group(1) if m else None},
                             "the type given to an integer literal is not the narrowest type of its signedness that holds it")
    main = ['#include <iostream>', '#include "types.h"', "int main() { lt::R r; r.i = 5;"]
    for n in ok_lits:
        main.append('  std::cout << "%s=" << (%s)(r.%s()) << "\\n";' % (name(n), "long long" if n < 0 else "unsigned long long", to_pascal(name(n))))
    main.append("}")
    cppdir = os.path.join(root, "cpp")
    open(os.path.join(cppdir, "lt_main.cc"), "w").write("\n".join(main))
    exe = os.path.join(root, "ltmain")
    pc = vlib.run(["g++", "-std=c++17", "-O0", "-w", "-I", os.path.join(vlib.HARNESS, "cpp"), "-I", cppdir, os.path.join(cppdir, "lt_main.cc"), os.path.join(cppdir, "types.cc"), "-o", exe], timeout=600)
    cpp = {}
    if pc.returncode == 0:
        for line in subprocess.run([exe], stdout=subprocess.PIPE, timeout=60).stdout.decode().splitlines():
            k2, v2 = line.split("=")
            cpp[k2] = int(v2)
    else:
        report.violation("literal:cpp-does-not-compile", {"log": (pc.stderr or b"").decode(errors="replace")[-1500:] if isinstance(pc.stderr, bytes) else str(pc.stderr)[-1500:]}, "")
    script = ("import sys, json\nsys.path.insert(0, %r)\nimport lt\nr = lt.R(i=5)\nprint(json.dumps({n: int(getattr(r, n)()) for n in %r}))\n"
              % (os.path.join(root, "py"), [vlib.to_snake(name(n)) for n in ok_lits]))
    p = subprocess.run(["python3-vt", "-W", "ignore", "-c", script], stdout=subprocess.PIPE, stderr=subprocess.PIPE, timeout=120)
    py = json.loads(p.stdout) if p.returncode == 0 else {}
    for n in ok_lits:
        for tgt, got in (("cpp", cpp.get(name(n))), ("python", py.get(vlib.to_snake(name(n))))):
            report.case(distinct_key=("literal-value", n, tgt))
            report.count(f"literals.value.{tgt}")
            if got != n:
                report.violation(f"emission:value-differs:{tgt}:literal", {"literal": n, "model_type": want[n], "got": got}, f"generated {tgt} returns another value for an integer literal")


def _narrow_operands(report, sc, ybin):
    """Arithmetic on 8/16-bit operands is typed int32: its value must be the mathematical one whatever the
    operands' *source* is (scalar field, vector element, array element — the last are NumPy scalars in Python)."""
    ext = {"int8": (-128, 127), "uint8": (200, 100), "int16": (-32768, 32767), "uint16": (60000, 50000)}
    fields, computed, expect = [], {}, {}
    for p, (x, y) in ext.items():
        P = p.capitalize()
        fields += [(f"s{P}x", p), (f"s{P}y", p), (f"v{P}", f"{p}*"), (f"a{P}", f"{p}[n]"), (f"m{P}", f"{p}[r,c]")]
        for src, lx, ly in (("s", f"s{P}x", f"s{P}y"), ("v", f"v{P}[0]", f"v{P}[1]"), ("a", f"a{P}[0]", f"a{P}[1]"), ("m", f"m{P}[0,0]", f"m{P}[0,1]")):
            for opn, ops, f in (("Add", "+", lambda u, v: u + v), ("Sub", "-", lambda u, v: u - v), ("Mul", "*", lambda u, v: u * v)):
                n = f"{src}{P}{opn}"
                computed[n] = f"{lx} {ops} {ly}"
                expect[n] = f(x, y)
    d = _pkg(sc, "narrow", fields, computed)
    rc, out, err = vlib.yardl(ybin, d, "generate")
    if rc != 0:
        report.violation("emission:model-rejected", {"error": err[-800:]}, "")
        return
    root = os.path.dirname(d)
    ctor = []
    for p, (x, y) in ext.items():
        P = p.capitalize()
        sn = vlib.to_snake
        ctor.append(f"{sn('s'+P+'x')}={x}, {sn('s'+P+'y')}={y}, {sn('v'+P)}=[{x},{y}], {sn('a'+P)}=np.array([{x},{y}], dtype=np.{p}), {sn('m'+P)}=np.array([[{x},{y}]], dtype=np.{p})")
    script = ("import sys, json\nimport numpy as np\nsys.path.insert(0, %r)\nimport cf\nr = cf.R(%s)\nres = {}\n"
              "for n in %r:\n    try:\n        res[n] = int(getattr(r, n)())\n    except Exception as e:\n        res[n] = 'EXC ' + type(e).__name__\n"
              "print(json.dumps(res))\n") % (os.path.join(root, "py"), ", ".join(ctor), [vlib.to_snake(n) for n in computed])
    p = subprocess.run(["python3-vt", "-W", "ignore", "-c", script], stdout=subprocess.PIPE, stderr=subprocess.PIPE, timeout=120)
    if p.returncode != 0:
        report.violation("emission:python-narrow-run-failed", {"stderr": p.stderr.decode()[-1200:]}, "")
        return
    got = json.loads(p.stdout)
    for n, want in expect.items():
        g = got.get(vlib.to_snake(n))
        report.case(distinct_key=("narrow", n), sample={"source": computed[n], "expected": want, "python": g} if n == "mUint8Add" else None)
        report.count("emission.narrow.python")
        if g != want:
            report.violation("emission:value-differs:python:narrow-operands", {"source": computed[n], "field": n, "reference": want, "got": g},
                             "int32-typed arithmetic on narrow operands does not yield the mathematical value in Python")


WIDE_TYPES = {"int64": (-2**63, 2**63 - 1), "uint64": (0, 2**64 - 1), "size": (0, 2**64 - 1), "int32": (-2**31, 2**31 - 1), "uint32": (0, 2**32 - 1)}
WIDE_ENVS = {
    "int64": [(2**62, 2**61, 3), (9007199254740993, 1, 1), (2**63 - 1, 1, 7), (2**53 + 1, 3, 2), (-(2**62), 2**10, 4), (1234567890123456789, 1000000007, 10), (2**63 - 2, 2**62, 2)],
    "uint64": [(2**64 - 1, 1, 1), (2**63 + 5, 2**62, 2), (2**53 + 1, 3, 1), (18446744073709551557, 7, 3), (2**64 - 2, 2**63, 2), (9007199254740993, 1, 1)],
    "size": [(2**64 - 1, 1, 1), (2**63 + 5, 2**62, 2), (9007199254740993, 1, 1), (2**64 - 3, 11, 5)],
    "int32": [(2**31 - 1, 1, 2), (-(2**31), 2**30, 2), (2**31 - 2, 2**30, 3)],
    "uint32": [(2**32 - 1, 3, 1), (2**31 + 5, 2**30, 2), (4294967291, 7, 5)],
}
V = lambda i: ["var", i]
B = lambda op, l, r: ["bin", op, l, r]
WIDE_EXPRS = {"add": B("add", V(0), V(1)), "sub": B("sub", V(0), V(1)), "mul": B("mul", V(1), V(2)), "div": B("div", V(0), V(1)), "divz": B("div", V(0), V(2)),
              "avg": B("div", B("add", V(0), V(1)), V(2)), "ceil": B("div", B("sub", B("add", V(0), V(1)), V(2)), V(1)), "mix": B("add", B("mul", B("div", V(0), V(1)), V(1)), V(2)),
              "half": B("sub", V(0), B("div", V(0), V(2)))}


def _exact(e, env, lo, hi):
    """exact value with C semantics of `/` (truncation); None when an operand, an intermediate or the result leaves [lo, hi], when a division is by
    zero, or when a negative operand meets an inexact division (the open finding about Python's floor division)"""
    if e[0] == "var":
        return env[e[1]]
    a, b = _exact(e[2], env, lo, hi), _exact(e[3], env, lo, hi)
    if a is None or b is None:
        return None
    if e[1] == "div":
        if b == 0 or ((a < 0 or b < 0) and a % b != 0):
            return None
        v = abs(a) // abs(b) * (1 if (a < 0) == (b < 0) else -1)
    else:
        v = {"add": a + b, "sub": a - b, "mul": a * b}[e[1]]
    return v if lo <= v <= hi else None


def _wide_operands(report, sc, ybin, lean, seed):
    """+, -, *, / on 64-bit (and full-range 32-bit) operands: whenever operands, intermediates and result are in the range of the type, every
    target yields the exact integer (a detour through a double loses the low bits above 2**53)"""
    from formatting_shim import to_pascal
    for T, (lo, hi) in WIDE_TYPES.items():
        fields = [("x", T), ("y", T), ("z", T)]
        computed = {n: _src(e)[1:-1] if _src(e).startswith("(") else _src(e) for n, e in WIDE_EXPRS.items()}
        computed = {n: c.replace("a", "x").replace("b", "y").replace("c", "z") for n, c in computed.items()}
        d = _pkg(sc, "wide-" + T, fields, computed, cpp=True)
        rc, out, err = vlib.yardl(ybin, d, "generate")
        if rc != 0:
            report.violation("emission:model-rejected", {"error": err[-800:], "type": T}, "")
            continue
        root = os.path.dirname(d)
        envs = WIDE_ENVS[T]
        want = {}
        for n, e in WIDE_EXPRS.items():
            for env in envs:
                v = _exact(e, env, lo, hi)
                if v is not None:
                    r = lean.ask({"op": "eval", "expr": e, "env": list(env), "lo": lo, "hi": hi})
                    # the hypothesis of fixed_width_evaluation_is_exact holds for this case, and the model's fixed-width value is the exact one
                    report.count("wide.hypothesis-in-range" if r.get("in_range") else "wide.HYPOTHESIS-FAILS")
                    if r.get("value") != v or not r.get("in_range") or r.get("fixed_width") != v:
                        report.violation("model:eval", {"theorem_or_correspondence": "Expr.eval vs exact arithmetic", "expr": e, "env": env, "model": r, "exact": v}, "no-failing-input-found")
                    want[(n, env)] = v
        # Python
        script = ("import sys, json\nimport numpy as np\nsys.path.insert(0, %r)\nimport cf\nres = {}\n"
                  "for env in %r:\n    r = cf.R(x=env[0], y=env[1], z=env[2])\n"
                  "    for n in %r:\n        try:\n            res[n + '|' + ','.join(map(str, env))] = str(int(getattr(r, n)()))\n"
                  "        except Exception as e:\n            res[n + '|' + ','.join(map(str, env))] = 'EXC ' + type(e).__name__\n"
                  "print(json.dumps(res))\n") % (os.path.join(root, "py"), [list(e) for e in envs], list(WIDE_EXPRS))
        p = subprocess.run(["python3-vt", "-W", "ignore", "-c", script], stdout=subprocess.PIPE, stderr=subprocess.PIPE, timeout=120)
        pyvals = json.loads(p.stdout) if p.returncode == 0 else None
        if pyvals is None:
            report.violation("emission:python-wide-run-failed", {"stderr": p.stderr.decode()[-1200:], "type": T}, "")
        # C++
        main = ['#include <iostream>', '#include "types.h"', "int main() {", "  std::cout << std::unitbuf;"]
        for env in envs:
            ctype = {"int64": "int64_t", "uint64": "uint64_t", "size": "uint64_t", "int32": "int32_t", "uint32": "uint32_t"}[T]
            lit = lambda v: f"static_cast<{ctype}>({v}{'ULL' if v >= 0 else 'LL'})" if v > -(2**63) else f"static_cast<{ctype}>(-9223372036854775807LL - 1)"
            main.append("  { cf::R r; r.x = %s; r.y = %s; r.z = %s;" % tuple(lit(v) for v in env))
            for n in WIDE_EXPRS:
                if (n, env) in want:
                    main.append('    std::cout << "%s|%s=" << +r.%s() << "\\n";' % (n, ",".join(map(str, env)), to_pascal(n)))
            main.append("  }")
        main.append("}")
        cppdir = os.path.join(root, "cpp")
        open(os.path.join(cppdir, "cf_main.cc"), "w").write("\n".join(main))
        exe = os.path.join(root, "cfmain")
        cp = vlib.run(["g++", "-std=c++17", "-O0", "-w", "-I", os.path.join(vlib.HARNESS, "cpp"), "-I", cppdir, os.path.join(cppdir, "cf_main.cc"),
                       os.path.join(cppdir, "types.cc"), "-o", exe], timeout=600)
        cppvals = None
        if cp.returncode == 0:
            cppvals = dict(line.split("=") for line in subprocess.run([exe], stdout=subprocess.PIPE, timeout=60).stdout.decode().splitlines() if "=" in line)
        else:
            report.violation("emission:cpp-wide-compile-failed", {"type": T, "log": (cp.stderr or b"").decode(errors="replace")[-1500:] if hasattr(cp, "stderr") else ""}, "")
        for (n, env), v in want.items():
            k = n + "|" + ",".join(map(str, env))
            for tgt, vals in (("python", pyvals), ("cpp", cppvals)):
                if vals is None:
                    continue
                report.case(distinct_key=("wide", T, n, env, tgt), sample={"type": T, "source": computed[n], "env": env, "value": v, "target": tgt} if n == "div" and env == envs[0] else None)
                report.count(f"emission.wide.{tgt}")
                if vals.get(k) != str(v):
                    report.violation(f"emission:value-differs:{tgt}:wide-operands", {"type": T, "source": computed[n], "env": dict(zip("xyz", env)), "reference": v, "got": vals.get(k), "seed": seed},
                                     f"generated {tgt} does not compute the exact value although operands, intermediates and result are in the range of {T}")


def _has_pow(e):
    return e[0] == "bin" and (e[1] == "pow" or _has_pow(e[2]) or _has_pow(e[3])) or (e[0] == "neg" and _has_pow(e[1]))


def _overflows(e, env):
    """True if some intermediate value leaves int32 (then 'in-range operands' does not apply)."""
    def ev(x):
        if x[0] == "lit":
            return x[1]
        if x[0] == "var":
            return env[x[1]]
        if x[0] == "neg":
            return -ev(x[1])
        l, r = ev(x[2]), ev(x[3])
        v = {"add": l + r, "sub": l - r, "mul": l * r, "div": int(l / r) if r else 0}[x[1]]
        if not (-2**31 <= v < 2**31):
            raise OverflowError
        return v
    try:
        ev(e)
        return False
    except OverflowError:
        return True


def _py_values(root, names, envs):
    script = ("import sys, json\nsys.path.insert(0, %r)\nimport cf\nres = {}\n"
              "for env in %r:\n    r = cf.R(a=env[0], b=env[1], c=env[2], d=env[3])\n"
              "    for n in %r:\n        try:\n            v = getattr(r, n)()\n            res[n + '|' + ','.join(map(str, env))] = int(v) if float(v) == int(v) else float(v)\n"
              "        except Exception as e:\n            res[n + '|' + ','.join(map(str, env))] = 'EXC ' + type(e).__name__\n"
              "print(json.dumps(res))\n") % (os.path.join(root, "py"), envs, [vlib.to_snake(n) for n in names])
    p = subprocess.run(["python3-vt", "-c", script], stdout=subprocess.PIPE, stderr=subprocess.PIPE, timeout=300)
    if p.returncode != 0:
        return {"__error__": p.stderr.decode()[-800:]}
    raw = json.loads(p.stdout)
    snake = {vlib.to_snake(n): n for n in names}
    return {(snake[k.split("|")[0]], tuple(int(x) for x in k.split("|")[1].split(","))): v for k, v in raw.items()}


def _cpp_values(root, names, envs, sc, undefined=()):
    from formatting_shim import to_pascal
    main = ['#include <iostream>', '#include "types.h"', "int main() {", "  std::cout << std::unitbuf;"]
    for env in envs:
        main.append("  { cf::R r; r.a = %d; r.b = %d; r.c = %d; r.d = %d;" % tuple(env))
        for n in names:
            if (n, tuple(env)) in undefined:
                continue
            main.append('    std::cout << "%s|%s=" << static_cast<long long>(r.%s()) << "\\n";' % (n, ",".join(map(str, env)), to_pascal(n)))
        main.append("  }")
    main.append("}")
    cppdir = os.path.join(root, "cpp")
    open(os.path.join(cppdir, "cf_main.cc"), "w").write("\n".join(main))
    exe = os.path.join(root, "cfmain")
    p = vlib.run(["g++", "-std=c++17", "-O0", "-w", "-I", os.path.join(vlib.HARNESS, "cpp"), "-I", cppdir, os.path.join(cppdir, "cf_main.cc"),
                  os.path.join(cppdir, "types.cc"), "-o", exe], timeout=600)
    if p.returncode != 0:
        return None
    out = subprocess.run([exe], stdout=subprocess.PIPE, timeout=60).stdout.decode()
    res = {}
    for line in out.splitlines():
        k, v = line.split("=")
        n, env = k.split("|")
        res[(n, tuple(int(x) for x in env.split(",")))] = int(v)
    return res
