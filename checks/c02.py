"""C02 — NDJSON write/read round trip and documented JSON mapping.

Proof: Props/C02.lean — json_round_trip: fromJ (toJ v) = v for every well-formed type and typed value
(all constructors, any depth; !flags excluded: evaluated per value); untagged unions are read back as
the written case because the JSON data types of the cases are pairwise disjoint and each value's JSON
type is among its type's; records with omitted optional fields.
Correspondence through freshly generated C++ and Python:
  writer leg: Lean-encoded binary reference stream -> generated reader -> generated NDJSON writer; every
              line must denote (as a JSON value) what the Lean mapping `toJ` prescribes; header line first;
  reader leg: NDJSON rendered from `toJ` -> generated NDJSON reader -> generated binary writer -> Lean `dec`
              must give back the values. Consecutive stream items differ in which optional fields are present.
"""
import json
import os

import codeclab
import gen_tables
import jsonlab
from checks import c02_lines
import modelgen
import vlib
from checks.c01 import _files, _errclass

THEOREMS = ["Yardl.C02.json_round_trip", "Yardl.C02.untagged_case_is_recovered", "Yardl.C02.json_type_is_announced",
            "Yardl.C02.prim_kinds_sound", "Yardl.C02.prim_kinds_match_source", "Yardl.C02.nested_optional_collapses",
            "Yardl.C02.flags_value_outside_declared_bits_is_a_number", "Yardl.C02.compound_kinds_match_source",
            "Yardl.C02.compound_kinds_table_complete", "Yardl.C02.ndjson_lines_are_read_back", "Yardl.C02.ndjson_required_step_missing_is_error"]


def run(report, tier, seed):
    quick = tier == "quick"
    report.rule = ("a case = one (protocol, value sequence, direction, language); values are JSON-representable (finite floats), stream "
                   "items alternate between full and minimal shapes; distinct = distinct (wire type, values, direction, language); "
                   "non-trivial = at least one value line")
    with vlib.Scratch("vf-c02g-") as gsc:
        gen_tables.generate(gsc)
    lean_ok, _ = vlib.check_lean(report, "Props.C02", THEOREMS)
    if not lean_ok:
        report.violation("lean:Props.C02", {"theorem_or_correspondence": "Props.C02 does not build or audit",
                                            "log": (report.extra.get("lean_build_log") or report.extra.get("lean_axiom_log", ""))[-3000:]},
                         "no-failing-input-found")
    with vlib.Scratch("vf-c02-") as sc:
        ybin = vlib.build_yardl(sc)
        lean = vlib.LeanDriver("wiredrv")
        n = 3 if quick else 30
        # C++ legs: no date/time/datetime (the date.h stand-in cannot format them); Python-only labs cover them
        gens = [(i, modelgen.Gen(seed * 100103 + i, json_safe=True, cpp_json_safe=True)) for i in range(n)]
        labs = codeclab.prepare_labs(sc, ybin, gens, ndjson=True, sanitize=False)
        pygens = [(100 + i, modelgen.Gen(seed * 100103 + 100 + i, json_safe=True)) for i in range(n)]
        pylabs = [codeclab.Lab(sc, ybin, i, g, ndjson=True, want_cpp=False).prepare() for i, g in pygens]
        d = codeclab.Lab(sc, ybin, 1000, modelgen.Gen(seed * 100103 + 1000, json_safe=True), pkg=modelgen.directed_package(),
                         ndjson=True, want_cpp=False).prepare()
        # fields that can be null in every way a type can say so (aliases, alias chains, generic arguments, named unions), in C++ and Python
        nl = codeclab.Lab(sc, ybin, 1001, modelgen.Gen(seed * 100103 + 1001, json_safe=True, cpp_json_safe=True), pkg=modelgen.nullable_package(), ndjson=True).prepare()
        # untagged unions: every ordered pair of cases whose JSON types differ (the reader tells the case from the JSON type alone)
        ut = codeclab.Lab(sc, ybin, 1002, modelgen.Gen(seed * 100103 + 1002, json_safe=True, cpp_json_safe=True), pkg=modelgen.untagged_unions_package(small=quick),
                          ndjson=True).prepare()
        ut.min_stream_items = 6
        for lab in labs + pylabs + [d, nl, ut]:
            if not lab.ok:
                report.violation(f"{lab.stage}:model", {"seed": seed, "model_index": lab.idx, "error": lab.err, "files": _files(lab)}, "")
                continue
            report.count("models.cpp+py" if lab.want_cpp else "models.py")
            exercise(report, lab, lean, 4 if quick else 15, seed, "C02")
        lean.close()


def exercise(report, lab, lean, n_sets, seed, prop, langs=None):
    g = lab.gen
    langs = langs or (["cpp", "py"] if lab.want_cpp else ["py"])
    pyjobs, pending = [], []
    for pname, pj in lab.protos.items():
        nstreams = sum(1 for s in pj if s["stream"])
        for k in range(n_sets):
            vals = g.gen_step_vals(pj, stream_len=0)
            for i, s in enumerate(pj):
                if s["stream"]:
                    items = []
                    for q in range(max(getattr(lab, "min_stream_items", 0), g.rng.choice([0, 1, 2, 3, 5]))):
                        v = g.gen_value(s["ty"], 3)
                        if q % 2 == 1:
                            v = modelgen.shrink_value(s["ty"], v)
                        items.append(v)
                    vals[i] = ["stream", items]
            parts = [g.gen_partition(len(v[1])) if v[0] == "stream" else [] for v in vals]
            enc = lean.ask({"op": "enc_proto", "proto": pj, "parts": parts, "vals": vals, "schema": lab.schemas[pname]})
            tj = lean.ask({"op": "toj_proto", "proto": pj, "vals": vals})
            report.count("model.wf-types" if tj.get("wf") else "model.types-outside-WF (flags / nested optionals)")
            if not tj["model_round_trip"]:
                report.violation("model:fromJ-toJ", {"theorem_or_correspondence": "Lean fromJ (toJ v) = v evaluated on a generated value", "protocol": pj, "vals": vals,
                                                     "wf": tj.get("wf")},
                                 "the Lean JSON mapping does not round-trip this value (outside the hypotheses of json_round_trip: flags / nested optionals?)")
            lines = [(ln[0], ln[1]) for ln in tj["lines"]]
            binp = lab.tmp(".ref.bin")
            open(binp, "wb").write(bytes.fromhex(enc["hex"]))
            jinp = lab.tmp(".ref.ndjson")
            open(jinp, "w", encoding="utf-8").write(jsonlab.ndjson_text(lab.schemas[pname], lines))
            ctx = {"proto": pname, "vals": vals if len(json.dumps(vals)) < 5000 else "(large)", "model_index": lab.idx, "seed": seed}
            bufs = [g.rng.choice([1, 2, 3]) for _ in range(nstreams)]
            if "cpp" in langs:
                out = lab.tmp(".cpp.ndjson")
                rc, err = lab.run_cpp(pname, "b", "j", binp, out, bufs)
                judge_writer(report, lab, pname, pj, lines, "cpp", rc, err, out, dict(ctx, bufsizes=bufs))
                out = lab.tmp(".cpp.bin")
                rc, err = lab.run_cpp(pname, "j", "b", jinp, out, bufs)
                judge_reader(report, lab, lean, pname, pj, vals, "cpp", rc, err, out, dict(ctx, bufsizes=bufs), jinp)
            if k == 0 and len(pj) >= 2:
                # the step reader against its model on valid and mutated line sequences (one value set per protocol)
                c02_lines.line_sequences(report, lab, lean, pname, pj, vals, lines, g.rng, seed, langs)
            if "py" in langs:
                o1, o2 = lab.tmp(".py.ndjson"), lab.tmp(".py.bin")
                pyjobs.append({"proto": pname, "infmt": "b", "outfmt": "j", "in": binp, "out": o1})
                pending.append(("w", pname, pj, lines, vals, o1, ctx, jinp))
                pyjobs.append({"proto": pname, "infmt": "j", "outfmt": "b", "in": jinp, "out": o2})
                pending.append(("r", pname, pj, lines, vals, o2, ctx, jinp))
    if pyjobs:
        results = lab.run_py(pyjobs)
        for (kind, pname, pj, lines, vals, out, ctx, jinp), res in zip(pending, results):
            if kind == "w":
                judge_writer(report, lab, pname, pj, lines, "py", res["rc"], res["exc"], out, ctx)
            else:
                judge_reader(report, lab, lean, pname, pj, vals, "py", res["rc"], res["exc"], out, ctx, jinp)


def judge_writer(report, lab, pname, pj, lines, lang, rc, err, outpath, ctx):
    report.case(distinct_key=(json.dumps(pj), json.dumps(lines), "w", lang) if lines else None,
                sample={"protocol": pname, "lang": lang, "direction": "binary->NDJSON", "first_line": lines[0] if lines else None} if report.evaluations % 60 == 0 else None)
    report.count(f"writer.{lang}")
    replay = dict(ctx, lang=lang, direction="binary->ndjson", files=_files(lab))
    if rc != 0:
        report.violation(f"{lang}:ndjson-writer-raised:{_errclass(err)}", dict(replay, rc=rc, stderr=err), "")
        return
    got = open(outpath, encoding="utf-8").read().splitlines()
    try:
        hdr = json.loads(got[0])
        assert hdr["yardl"]["version"] == 1 and hdr["yardl"]["schema"] == json.loads(lab.schemas[pname])
    except Exception:
        report.violation(f"{lang}:ndjson-header", dict(replay, first_line=got[0][:500] if got else None), "first line is not the NDJSON header with the schema")
        return
    body = got[1:]
    if len(body) != len(lines):
        report.violation(f"{lang}:ndjson-line-count", dict(replay, expected=len(lines), got=len(body)), "")
        return
    for i, ((name, ex), text) in enumerate(zip(lines, body)):
        try:
            obj = json.loads(text)
        except Exception:
            report.violation(f"{lang}:ndjson-not-json", dict(replay, line=text[:500]), "")
            return
        if not isinstance(obj, dict) or list(obj.keys()) != [name]:
            report.violation(f"{lang}:ndjson-step-name", dict(replay, line=text[:500], expected_step=name), "")
            return
        diff = jsonlab.matches(ex, obj[name])
        if diff:
            report.violation(f"{lang}:ndjson-mapping-differs", dict(replay, line_index=i, written=text[:1500],
                                                                    documented_mapping=json.dumps(jsonlab.render(ex))[:1500], difference=diff),
                             "a written NDJSON document is not the documented mapping of the value")
            return


def judge_reader(report, lab, lean, pname, pj, vals, lang, rc, err, outpath, ctx, jinp):
    report.case(distinct_key=(json.dumps(pj), json.dumps(vals), "r", lang),
                sample={"protocol": pname, "lang": lang, "direction": "NDJSON->binary"} if report.evaluations % 60 == 1 else None)
    report.count(f"reader.{lang}")
    replay = dict(ctx, lang=lang, direction="ndjson->binary", files=_files(lab), ndjson=open(jinp, encoding="utf-8").read()[:6000])
    if rc != 0:
        report.violation(f"{lang}:ndjson-reader-raised:{_errclass(err)}", dict(replay, rc=rc, stderr=err), "")
        return
    r = lean.ask({"op": "dec_proto", "proto": pj, "hex": open(outpath, "rb").read().hex()})
    if "error" in r or r.get("rest", 0) != 0:
        report.violation(f"{lang}:ndjson-reader-bytes-do-not-decode", dict(replay, decode=r.get("error", "trailing")), "")
        return
    if modelgen.canon_stepvals(r["vals"]) != modelgen.canon_stepvals(vals):
        report.violation(f"{lang}:ndjson-read-value-differs", dict(replay, got=r["vals"] if len(json.dumps(r["vals"])) < 4000 else "(large)"),
                         "the value read from the documented NDJSON differs from the value written")
