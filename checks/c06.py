"""C06 — schema-evolution verdicts are total, reflexive and match the documented classes.

Proof: Props/C06.lean over YardlModel/Evolution.lean (the structural core of change detection:
reflexivity for every type, no change is ever reported for identical types at any depth, protocol
verdict of a protocol against itself is ok, verdict classes of every primitive pair).
Tie: (A) random version pairs (new = 1-2 random edits of old at any position: type rewrites, record
and enum definition edits, protocol edits) are judged by the real ValidateEvolution (in-process, and
through `yardl validate` for a sample) and by the Lean model: verdicts (error / warning / silent) must
agree, the tool must not panic, and must answer the same twice. (B) documented classes: each edit made
at a position the documentation speaks about must get the documented verdict. (C) meaning-preserving
rewrites of packages with generics, aliases and imports (identity, definition order, unused
definitions, comments, rename through an alias, re-spelling) must be silent. (D) changes of generic
type arguments, also when one version reaches the instantiation through an alias, must be rejected.
"""
import copy
import json
import os
import random
import subprocess

import evogen
import gen_tables
import modelgen
import vlib

THEOREMS = ["Yardl.C06.verdict_total", "Yardl.C06.primitive_change_table", "Yardl.C06.primitive_change_table_complete",
            "Yardl.C06.primitive_change_classes", "Yardl.C06.primitive_change_error_symmetric", "Yardl.C06.wrappers_preserve_errors",
            "Yardl.C06.compare_reflexive", "Yardl.C06.well_formedness_is_needed", "Yardl.C06.identical_versions_are_silent",
            "Yardl.C06.removing_a_step_is_rejected", "Yardl.C06.appending_a_step", "Yardl.C06.optional_and_mandatory", "Yardl.C06.dimensioned_optional_rejected",
            "Yardl.C06.union_case_added_or_removed", "Yardl.C06.adding_a_field", "Yardl.C06.removing_a_field",
            "Yardl.C06.reordering_fields", "Yardl.C06.inserting_a_step", "Yardl.C06.moving_a_step_is_rejected", "Yardl.C06.changing_an_enum_definition",
            "Yardl.C06.adding_enum_symbols_is_silent", "Yardl.C06.scalar_to_vector_or_array", "Yardl.C06.changing_type_arguments", "Yardl.C06.optional_and_union",
            "Yardl.C06.reordering_union_cases"]

SEV = {"ok": 0, "warn": 1, "err": 2}

# verdict the documentation assigns to an edit made at a plain position (docs/cpp/evolution.md)
DOC = {
    "type:to-optional": "warn", "type:from-optional": "warn", "type:optional-to-union": "warn", "type:union-to-optional": "warn",
    "type:to-union": "warn", "type:union-to-scalar": "warn", "type:union-add": "warn", "type:union-remove": "warn",
    "type:to-vector": "err", "type:from-vector": "err", "type:vec-to-array": "err",
    "record:field-add-nullable": "ok", "record:field-add-required": "warn", "record:field-swap": "ok",
    "enum:enum-remove-value": "err", "enum:enum-change-value": "err", "enum:enum-base": "err", "enum:enum-flags-toggle": "err",
    "protocol:step-add-empty-able": "ok", "protocol:step-remove": "err", "protocol:step-swap": "err",
}


def write_version(root, name, v, versions=None, extra=""):
    d = os.path.join(root, name)
    os.makedirs(d, exist_ok=True)
    man = ["namespace: Evo"]
    if versions:
        man.append("versions:")
        for label, path in versions:
            man.append(f"  {label}: {path}")
    if extra:
        man.append(extra)
    open(os.path.join(d, "_package.yml"), "w").write("\n".join(man) + "\n")
    open(os.path.join(d, "model.yml"), "w").write(evogen.model_yaml(v))
    return d


def real_verdict(inproc, pkgdir):
    p = subprocess.run([inproc, "dump", pkgdir], stdout=subprocess.PIPE, stderr=subprocess.PIPE, timeout=60)
    try:
        res = json.loads(p.stdout)
    except Exception:
        return "crash", {"stdout": p.stdout.decode(errors="replace")[-800:], "stderr": p.stderr.decode(errors="replace")[-800:], "rc": p.returncode}
    if "panic" in res:
        return "panic", res
    for k in ("loadError", "parseError", "validateError", "versionError"):
        if k in res:
            return "invalid", res
    if "evolutionError" in res:
        return "err", res
    if res.get("evolutionWarnings"):
        return "warn", res
    return "ok", res


def files_of(*dirs):
    out = {}
    for d in dirs:
        for dp, _, fns in os.walk(d):
            for fn in fns:
                if fn.endswith(".yml"):
                    p = os.path.join(dp, fn)
                    out[os.path.relpath(p, os.path.dirname(d))] = open(p).read()[:6000]
    return out


def run(report, tier, seed):
    quick = tier == "quick"
    report.rule = ("a case = one (old version, new version) pair judged by ValidateEvolution and by the Lean model / the documented class; "
                   "distinct = distinct (old, new) model texts; non-trivial = the two versions differ")
    with vlib.Scratch("vf-c06g-") as gsc:
        gen_tables.generate(gsc)
    lean_ok, _ = vlib.check_lean(report, "Props.C06", THEOREMS)
    if not lean_ok:
        report.violation("lean:Props.C06", {"theorem_or_correspondence": "Props.C06 does not build or audit",
                                            "log": (report.extra.get("lean_build_log") or report.extra.get("lean_axiom_log", ""))[-3000:]},
                         "no-failing-input-found")
    with vlib.Scratch("vf-c06-") as sc:
        ybin = vlib.build_yardl(sc)
        inproc = vlib.build_go_harness(sc, "inproc")
        lean = vlib.LeanDriver("wiredrv")
        directed(report, sc, inproc)
        multi_instance(report, sc, inproc, lean)
        enum_values(report, sc, inproc, lean)
        through_wrappers(report, sc, inproc, lean, quick)
        structural(report, sc, ybin, inproc, lean, seed, 150 if quick else 3000)
        rewrites(report, sc, ybin, inproc, seed, 4 if quick else 40)
        lean.close()


DIRECTED = [
    # (name, old model, new model, documented verdict, key suffix)
    ("docs-rename-record-through-alias",
     "MyProtocol: !protocol\n  sequence:\n    people: !stream\n      items: MyRecord\nMyRecord: !record\n  fields:\n    firstName: string\n    lastName: string\n",
     "MyProtocol: !protocol\n  sequence:\n    people: !stream\n      items: Person\nPerson: !record\n  fields:\n    firstName: string\n    lastName: string\n    age: int\nMyRecord: Person\n",
     "warn", ""),
    ("docs-add-type-to-stream",
     "Image<T>: !record\n  fields:\n    data: T[]\nImageFloat: Image<float>\nStreamItem: ImageFloat\nMyProtocol: !protocol\n  sequence:\n    data: !stream\n      items: StreamItem\n",
     "Image<T>: !record\n  fields:\n    data: T[]\nAcquisition: !record\n  fields:\n    a: int\nImageInt16: Image<int16>\nImageFloat: Image<float>\nStreamItem: [Acquisition, ImageInt16, ImageFloat]\n"
     "MyProtocol: !protocol\n  sequence:\n    data: !stream\n      items: StreamItem\n",
     "warn", ""),
    ("docs-make-it-optional",
     "MyProtocol: !protocol\n  sequence:\n    description: string\n",
     "MyProtocol: !protocol\n  sequence:\n    description: string?\n",
     "warn", ""),
    ("make-a-vector-field-optional",
     "R: !record\n  fields:\n    f: !vector {items: int16, length: 2}\nP: !protocol\n  sequence:\n    s: R\n",
     "R: !record\n  fields:\n    f: [null, !vector {items: int16, length: 2}]\nP: !protocol\n  sequence:\n    s: R\n",
     "warn", ":vector-array-or-map-subject"),
    ("same-model-other-spelling",
     "P: !protocol\n  sequence:\n    s: !stream\n      items: \"time?\"\n    v: \"int16?*2*\"\n",
     "P: !protocol\n  sequence:\n    s: !stream\n      items: [null, time]\n    v: !vector {items: !vector {items: [null, int16], length: 2}}\n",
     "ok", ""),
    ("change-type-argument-behind-alias",
     "Image<T>: T[]\nP: !protocol\n  sequence:\n    s: Image<float>\n",
     "Image<T>: T[]\nImageD: Image<double>\nP: !protocol\n  sequence:\n    s: ImageD\n",
     "err", ""),
    ("change-number-of-type-parameters",
     "G<T>: !record\n  fields:\n    a: T\nP: !protocol\n  sequence:\n    s: G<int>\n",
     "G<T, U>: !record\n  fields:\n    a: T\n    b: U?\nP: !protocol\n  sequence:\n    s: G<int, int>\n",
     "err", ""),
]


def union_directed():
    """adding / removing union types at the first, a middle and the last place, at every position a union can take (step,
    stream item, record field, union with null, alias, alias inside a vector): docs/cpp/evolution.md "Adding or removing types
    to/from a Union" is partially compatible, i.e. accepted with a warning; the same union on both sides is silent"""
    cases4 = ["int", "string", "float", "bool"]
    def positions(u):
        yield "step", f"P: !protocol\n  sequence:\n    s: {u}\n"
        yield "stream-item", f"P: !protocol\n  sequence:\n    s: !stream\n      items: {u}\n"
        yield "record-field", f"R: !record\n  fields:\n    a: int\n    u: {u}\nP: !protocol\n  sequence:\n    s: R\n"
        yield "alias", f"U: {u}\nP: !protocol\n  sequence:\n    s: U\n"
        yield "alias-in-vector", f"U: {u}\nR: !record\n  fields:\n    v: U*\nP: !protocol\n  sequence:\n    s: !stream\n      items: R\n"
    def lit(cs, null):
        return "[" + ", ".join((["null"] if null else []) + cs) + "]"
    out = []
    for null in (False, True):
        for edit, old_cs, new_cs, want in (("remove-last", cases4, cases4[:3], "warn"), ("remove-last-two", cases4, cases4[:2], "warn"),
                                           ("remove-first", cases4, cases4[1:], "warn"), ("remove-middle", cases4, [cases4[0]] + cases4[2:], "warn"),
                                           ("add-last", cases4[:3], cases4, "warn"), ("add-first", cases4[1:], cases4, "warn"),
                                           ("same", cases4, cases4, "ok")):
            for (pos, oldm), (_, newm) in zip(positions(lit(old_cs, null)), positions(lit(new_cs, null))):
                out.append((f"union-{edit}{'-with-null' if null else ''}-at-{pos}", oldm, newm, want, ""))
    return out


def directed(report, sc, inproc):
    for name, oldm, newm, want, suffix in DIRECTED + union_directed():
        root = sc.path("d-" + name)
        for sub, text, man in (("old", oldm, "namespace: Evo\n"), ("new", newm, "namespace: Evo\nversions:\n  v0: ../old\n")):
            os.makedirs(os.path.join(root, sub), exist_ok=True)
            open(os.path.join(root, sub, "_package.yml"), "w").write(man)
            open(os.path.join(root, sub, "model.yml"), "w").write(text)
        verdict, res = real_verdict(inproc, os.path.join(root, "new"))
        report.case(distinct_key=("directed", name))
        report.count("directed")
        replay = {"directed": name, "old": oldm, "new": newm, "documented": want, "got": verdict,
                  "tool": {k2: res[k2] for k2 in res if k2 in ("evolutionError", "evolutionWarnings", "panic", "validateError", "parseError", "versionError")}}
        if verdict in ("panic", "crash"):
            report.violation("tool:panic-in-evolution", replay, "comparing two individually valid versions crashed")
        elif verdict != want:
            base = "type:to-optional" if suffix else name
            report.violation(f"documented-class:{base}:expected-{want}-got-{verdict}{suffix}", replay, "a documented example / class did not get the documented verdict")


def multi_instance(report, sc, inproc, lean):
    """several instantiations of one generic record reached from one protocol (one step, several steps, a holder record), with a
    documented change in a definition that only one instantiation's type argument reaches: the verdict must be the model's
    (directed; every arrangement x every edit on every tier)"""
    def base(arrangement, first):
        v = evogen.Version()
        v.defs["Pos"] = ["rec", [["x", ["prim", "float32"]], ["y", ["prim", "float32"]]], "Pos"]
        v.defs["Kind"] = ["enum", None, False, [["a", 0], ["b", 1]], "Kind"]
        v.order += ["Pos", "Kind"]
        v.generics["Sample"] = ["T", [["timestamp", ["prim", "uint64"]], ["value", ["tparam", "T"]]]]
        args = [["prim", "float32"], ["ref", "Pos"], ["ref", "Kind"]]
        if first:
            args = [args[1], args[2], args[0]]
        insts = [evogen.instantiate(v, "Sample", a) for a in args]
        if arrangement == "union-stream":
            v.steps.append(["items", ["union", False, [[f"c{i}", ["ref", n]] for i, n in enumerate(insts)]], True])
        elif arrangement == "separate-steps":
            for i, n in enumerate(insts):
                v.steps.append([f"s{i}", ["ref", n], i % 2 == 0])
        elif arrangement == "holder-record":
            v.defs["Holder"] = ["rec", [[f"h{i}", ["ref", n]] for i, n in enumerate(insts)], "Holder"]
            v.order.append("Holder")
            v.steps.append(["holder", ["ref", "Holder"], False])
        else:
            v.steps.append(["many", ["vec", ["ref", insts[0]], None], False])
            v.steps.append(["maybe", ["opt", ["ref", insts[1]]], False])
            v.steps.append(["more", ["ref", insts[2]], True])
        return v

    def e_vec(v): v.defs["Pos"][1][0][1] = ["vec", ["prim", "float32"], None]
    def e_double(v): v.defs["Pos"][1][0][1] = ["prim", "float64"]
    def e_bool(v): v.defs["Pos"][1][0][1] = ["prim", "bool"]
    def e_add_req(v): v.defs["Pos"][1].append(["z", ["prim", "float32"]])
    def e_add_opt(v): v.defs["Pos"][1].append(["z", ["opt", ["prim", "float32"]]])
    def e_remove(v): del v.defs["Pos"][1][1]
    def e_swap(v): v.defs["Pos"][1].reverse()
    def e_enum_value(v): v.defs["Kind"][3][1][1] = 5
    def e_enum_add(v): v.defs["Kind"][3].append(["c", 2])
    def e_enum_base(v): v.defs["Kind"][1] = "uint8"
    edits = [("field-to-vector", e_vec), ("field-float-to-double", e_double), ("field-float-to-bool", e_bool), ("field-add-required", e_add_req), ("field-add-optional", e_add_opt),
             ("field-remove", e_remove), ("field-swap", e_swap), ("enum-change-value", e_enum_value), ("enum-add-value", e_enum_add), ("enum-base", e_enum_base), ("identity", lambda v: None)]
    for arrangement in ("union-stream", "separate-steps", "holder-record", "wrapped-steps"):
        for first in (False, True):
            for ename, ed in edits:
                old = base(arrangement, first)
                new = old.copy()
                ed(new)
                evogen.reinstantiate(new)
                name = f"mi-{arrangement}-{int(first)}-{ename}"
                root = sc.path(name)
                od = write_version(root, "old", old)
                nd = write_version(root, "new", new, versions=[("v0", "../old")])
                verdict, res = real_verdict(inproc, nd)
                report.case(distinct_key=("multi-instance", arrangement, first, ename))
                report.count("multi-instance")
                m = lean.ask({"op": "evo_proto", "new": evogen.proto_json(new), "old": evogen.proto_json(old),
                              "new_defs": evogen.defs_json(new)})
                replay = {"directed": name, "files": files_of(od, nd), "model": m, "tool_verdict": verdict,
                          "tool": {k2: res[k2] for k2 in res if k2 in ("evolutionError", "evolutionWarnings", "panic", "validateError", "parseError", "versionError")}}
                if verdict in ("panic", "crash", "invalid"):
                    report.violation(f"multi-instance:{verdict}:{ename}", replay, "comparing two individually valid versions failed")
                elif m.get("verdict") != verdict:
                    report.violation(f"multi-instance:verdict-differs:{ename}:{arrangement}", dict(replay, theorem_or_correspondence="Evo.protoVerdict vs ValidateEvolution"),
                                     "a change reached only through one of several instantiations of a generic did not get the verdict of the same change reached directly")


def enum_values(report, sc, inproc, lean):
    """an enum reached from a protocol whose symbol values change: any change of a value is an error, whatever the sign, the magnitude and the base of
    the values (negated, swapped between two symbols, at the ends of the base type's range); unchanged values are silent (directed, every tier)"""
    cases = []
    for base, lo, hi in ((None, -2 ** 31, 2 ** 31 - 1), ("int8", -128, 127), ("int16", -2 ** 15, 2 ** 15 - 1), ("int64", -2 ** 63, 2 ** 63 - 1), ("uint64", 0, 2 ** 64 - 1), ("uint8", 0, 255)):
        signed = lo < 0
        vals = [["a", 1], ["b", 2], ["c", hi]] + ([["m", -1], ["n", -7], ["z", lo]] if signed else [["z", 0]])
        edits = [("identity", lambda v: None), ("first-to-other-magnitude", lambda v: v[0].__setitem__(1, 3)), ("top-down-by-one", lambda v, hi=hi: v[2].__setitem__(1, hi - 1))]
        if signed:
            edits += [("negate-positive", lambda v: v[1].__setitem__(1, -2)), ("negate-negative", lambda v: v[4].__setitem__(1, 7)),
                      ("swap-minus-one-and-one", lambda v: (v[0].__setitem__(1, -1), v[3].__setitem__(1, 1))),
                      ("bottom-up-by-one", lambda v, lo=lo: v[5].__setitem__(1, lo + 1)), ("negative-to-other-negative", lambda v: v[3].__setitem__(1, -3))]
        else:
            edits += [("zero-to-three", lambda v: v[3].__setitem__(1, 3))]
        for ename, ed in edits:
            cases.append((base, vals, ename, ed))
    for base, vals, ename, ed in cases:
        for reach in ("step", "field-in-stream", "through-alias"):
            old = evogen.Version()
            old.defs["Level"] = ["enum", base, False, [list(x) for x in vals], "Level"]
            old.order.append("Level")
            if reach == "step":
                old.steps.append(["level", ["ref", "Level"], False])
            elif reach == "field-in-stream":
                old.defs["Reading"] = ["rec", [["t", ["prim", "uint64"]], ["level", ["ref", "Level"]]], "Reading"]
                old.order.append("Reading")
                old.steps.append(["readings", ["ref", "Reading"], True])
            else:
                old.defs["LevelAlias"] = ["alias", ["ref", "Level"], "LevelAlias"]
                old.order.append("LevelAlias")
                old.steps.append(["levels", ["vec", ["ref", "LevelAlias"], None], False])
            new = old.copy()
            ed(new.defs["Level"][3])
            name = f"ev-{base or 'default'}-{ename}-{reach}"
            root = sc.path(name)
            od = write_version(root, "old", old)
            nd = write_version(root, "new", new, versions=[("v0", "../old")])
            verdict, res = real_verdict(inproc, nd)
            report.case(distinct_key=("enum-values", base, ename, reach))
            report.count("enum-values")
            want = "ok" if ename == "identity" else "err"
            m = lean.ask({"op": "evo_proto", "new": evogen.proto_json(new), "old": evogen.proto_json(old), "new_defs": evogen.defs_json(new)})
            replay = {"directed": name, "files": files_of(od, nd), "model": m, "tool_verdict": verdict, "documented": want,
                      "tool": {k2: res[k2] for k2 in res if k2 in ("evolutionError", "evolutionWarnings", "panic", "validateError", "parseError", "versionError")}}
            if verdict in ("panic", "crash", "invalid"):
                report.violation(f"enum-values:{verdict}:{ename}", replay, "comparing two individually valid versions failed")
            elif m.get("verdict") != verdict or verdict != want:
                report.violation(f"enum-values:verdict-differs:{ename}:{reach}", dict(replay, theorem_or_correspondence="Evo.protoVerdict vs ValidateEvolution"),
                                 "a changed enum value did not get the documented verdict (changing enum definitions is incompatible)")


def through_wrappers(report, sc, inproc, lean, quick):
    """every kind of change (none / warning / error / definition changed) under every nest of wrappers up to depth 3 - optional, vector, fixed vector,
    union case, record field, array element, map value - at a plain step and at a stream step: the tool's verdict must be the model's (for which
    wrappers_preserve_errors is proved). A change is never lost, nor invented, by where it sits."""
    import itertools
    P = lambda n: ["prim", n]
    base_changes = [("same", P("int32"), P("int32")), ("warn-int-long", P("int32"), P("int64")), ("error-bool-int", P("bool"), P("int32")),
                    ("error-date-string", P("date"), P("string")), ("error-record-to-other-record", ["ref", "RA"], ["ref", "RB"]), ("defchanged", ["ref", "RC"], ["ref", "RC"])]
    wrappers = {
        "opt": lambda t: ["opt", t], "vec": lambda t: ["vec", t, None], "vec3": lambda t: ["vec", t, 3],
        "union": lambda t: ["union", False, [["wa", ["prim", "string"]], ["wb", t]]], "nunion": lambda t: ["union", True, [["wa", ["prim", "float32"]], ["wb", t]]],
        "arr": lambda t: ["arr", t, ["rank", 1]], "map": lambda t: ["map", ["prim", "string"], t],
    }
    legal_inside = {"opt": ("vec", "vec3", "arr", "map", None), "union": ("vec", "vec3", "arr", "map", None), "nunion": ("vec", "vec3", "arr", "map", None)}
    nests = [()] + [(a,) for a in wrappers] + [(a, b) for a in wrappers for b in wrappers] + [(a, b, c) for a in ("vec", "opt", "vec3") for b in wrappers for c in ("opt", "vec", "union")]

    def legal(nest):
        # yardl: no optional / union directly inside an optional / union
        for outer, inner in zip(nest, nest[1:] + (None,)):
            if outer in legal_inside and inner not in legal_inside[outer]:
                if inner is not None:
                    return False
        return True
    nests = [n for n in nests if legal(n)]
    if quick:
        nests = [n for i, n in enumerate(nests) if len(n) <= 2 or i % 3 == 0]
    k = 0
    for cname, told, tnew in base_changes:
        for nest in nests:
            if nest and nest[-1] in ("opt", "union", "nunion") and told[0] == "ref" and False:
                continue
            for stream in (False, True):
                def build(t, changed):
                    v = evogen.Version()
                    v.defs["RA"] = ["rec", [["a", P("int32")]], "RA"]
                    v.defs["RB"] = ["rec", [["b", P("string")]], "RB"]
                    v.defs["RC"] = ["rec", [["c", P("int32")]] + ([["d", ["opt", P("int32")]]] if changed else []), "RC"]
                    v.order += ["RA", "RB", "RC"]
                    ty = t
                    for w in reversed(nest):
                        ty = wrappers[w](ty)
                    v.defs["H"] = ["rec", [["x", P("int32")], ["f", ty]], "H"]
                    v.order.append("H")
                    v.steps = [["direct", ty, stream], ["inField", ["ref", "H"], False]]
                    return v
                old, new = build(told, False), build(tnew, cname == "defchanged")
                k += 1
                name = f"tw{k}"
                root = sc.path(name)
                od = write_version(root, "old", old)
                nd = write_version(root, "new", new, versions=[("v0", "../old")])
                verdict, res = real_verdict(inproc, nd)
                report.case(distinct_key=("through-wrappers", cname, nest, stream))
                report.count("through-wrappers." + cname)
                if verdict == "invalid":
                    report.count("through-wrappers.rejected-as-a-model")   # the nest itself breaks a language rule
                    continue
                m = lean.ask({"op": "evo_proto", "new": evogen.proto_json(new), "old": evogen.proto_json(old), "new_defs": evogen.defs_json(new)})
                replay = {"directed": f"{cname} under {'/'.join(nest) or 'nothing'} ({'stream' if stream else 'step'})", "files": files_of(od, nd), "model": m, "tool_verdict": verdict,
                          "tool": {k2: res[k2] for k2 in res if k2 in ("evolutionError", "evolutionWarnings", "panic", "validateError", "parseError", "versionError")}}
                if verdict in ("panic", "crash"):
                    report.violation(f"through-wrappers:{verdict}:{cname}", replay, "comparing two individually valid versions failed")
                elif m.get("verdict") != verdict:
                    report.violation(f"through-wrappers:verdict-differs:{cname}:model-{m.get('verdict')}-tool-{verdict}", dict(replay, theorem_or_correspondence="Evo.protoVerdict vs ValidateEvolution"),
                                     "a change got a different verdict because of the containers it sits in")


def structural(report, sc, ybin, inproc, lean, seed, n):
    r = random.Random(seed * 9176 + 6)
    g = evogen.EvoGen(r, cpp_safe=False, generics=True)
    for i in range(n):
        old = g.gen_version()
        k = r.choice([0, 1, 1, 1, 1, 2, 2, 3]) if i % 10 else 0
        new, descs, lasts = old, [], []
        for _ in range(k):
            d, new = g.edit(new)
            descs.append(d)
            lasts.append(getattr(g, "last", {}))
        root = sc.path(f"s{i}")
        od = write_version(root, "old", old)
        nd = write_version(root, "new", new, versions=[("v0", "../old")])
        verdict, res = real_verdict(inproc, nd)
        text_key = (evogen.model_yaml(old), evogen.model_yaml(new))
        report.case(distinct_key=text_key if k else None,
                    sample={"edits": descs, "verdict": verdict} if i % 150 == 1 else None)
        for d in descs or ["identity"]:
            report.count("edit." + d.split(":")[0] + ":" + d.split(":")[1] if ":" in d else "edit." + d)
        report.count("verdict." + verdict)
        replay = {"seed": seed, "index": i, "edits": descs, "files": files_of(od, nd), "tool": {k2: res[k2] for k2 in res if k2 in
                  ("evolutionError", "evolutionWarnings", "panic", "validateError", "parseError", "versionError", "stderr")}}
        if verdict in ("panic", "crash"):
            report.violation("tool:panic-in-evolution", replay, "comparing two individually valid versions crashed")
            continue
        if verdict == "invalid":
            # the generator produced a version the front end rejects: not an evolution matter
            report.count("generator.invalid-version")
            continue
        # determinism
        if i % 5 == 0:
            v2, res2 = real_verdict(inproc, nd)
            if (v2, res2.get("evolutionError"), res2.get("evolutionWarnings")) != (verdict, res.get("evolutionError"), res.get("evolutionWarnings")):
                report.violation("tool:nondeterministic-verdict", dict(replay, second=res2.get("evolutionError") or res2.get("evolutionWarnings")), "")
        if i % 25 == 0:
            rc, out, err = vlib.yardl(ybin, nd, "validate")
            cli = "err" if rc != 0 else ("warn" if "warn" in (out + err).lower() else "ok")
            report.count("cli-runs")
            if (rc != 0) != (verdict == "err") or "panic" in err or "goroutine" in err:
                report.violation("tool:cli-verdict-differs-from-library", dict(replay, rc=rc, stderr=err[-1500:]), "")
        m = lean.ask({"op": "evo_proto", "new": evogen.proto_json(new), "old": evogen.proto_json(old),
                      "new_defs": evogen.defs_json(new)})
        if "verdict" not in m:
            report.violation("model:evo-error", dict(replay, model=m), "no-failing-input-found")
            continue
        report.count("hypothesis.wfSteps." + ("holds" if m.get("wf_new") and m.get("wf_old") else "fails"))
        if k == 0 and m.get("wf_new") and m["verdict"] != "ok":
            report.violation("model:identical-versions-not-silent", dict(replay, model=m, theorem_or_correspondence="Yardl.C06.identical_versions_are_silent"), "no-failing-input-found")
            continue
        if k == 0 and verdict != "ok":
            report.violation("reflexivity:version-not-compatible-with-itself", replay, "a model compared with an identical previous version gives errors or warnings")
            continue
        if m["verdict"] != verdict:
            report.violation(f"model:verdict-differs:{'+'.join(descs)}", dict(replay, model_verdict=m["verdict"], tool_verdict=verdict,
                                                                              theorem_or_correspondence="Evo.protoVerdict vs ValidateEvolution"),
                             "the Lean model of change detection and the tool disagree on this pair")
            continue
        # documented class of a single edit at a position the documentation speaks about
        if k == 1:
            d, last = descs[0], lasts[0]
            base = d.split(":")[0] + ":" + d.split(":")[1]
            want = DOC.get(base) if d == base else None
            if d == "type:prim-change":
                a, b = last["old"][1], last["new"][1]
                num = evogen.NUMERIC + ["string"]
                want = "warn" if a in num and b in num else None
            if d == "record:field-remove":
                want = None   # depends on the removed field's nullability: covered by the model comparison
            plain = True
            if d.startswith("type:"):
                plain = last.get("plain", False)
                owner = last.get("in_record")
                if owner and (g.users_closure(old, owner) & g.restricted_defs(old)):
                    plain = False
                if owner and not any(_reaches(old, s[1], owner) for s in old.steps):
                    plain = False
            elif "def" in last:
                name = last["def"]
                if g.users_closure(old, name) & g.restricted_defs(old):
                    plain = False
                if not any(_reaches(old, s[1], name) for s in old.steps):
                    want = "ok" if want is not None else None   # a definition no protocol uses: nothing to report
            if want is not None and plain:
                report.count("documented-class-checked." + base)
                okay = (verdict == want) or (want == "ok" and verdict == "ok")
                if not okay:
                    subject = ""
                    if d.startswith("type:") and (last["old"][0] in ("vec", "arr", "map") or last["new"][0] in ("vec", "arr", "map")) \
                            and base in ("type:to-optional", "type:from-optional", "type:to-union", "type:union-to-scalar"):
                        subject = ":vector-array-or-map-subject"
                    report.violation(f"documented-class:{base}:expected-{want}-got-{verdict}{subject}", dict(replay, documented=want, got=verdict, edit_detail=last),
                                     "an edit of a documented class did not get the documented verdict")


def _reaches(v, t, name, seen=None):
    seen = seen or set()
    k = t[0]
    if k == "ref":
        if t[1] == name:
            return True
        if t[1] in seen:
            return False
        seen.add(t[1])
        d = v.defs[t[1]]
        return d[0] == "rec" and any(_reaches(v, ft, name, seen) for _, ft in d[1])
    if k == "union":
        return any(_reaches(v, c[1], name, seen) for c in t[2])
    if k == "map":
        return _reaches(v, t[1], name, seen) or _reaches(v, t[2], name, seen)
    if k in ("opt", "vec", "arr"):
        return _reaches(v, t[1], name, seen)
    return False


# ------------------------------------------------------------------ packages with generics / aliases / imports

def _write_pkg(root, pkg, rng, versions=None, expanded_p=0.25):
    return vlib.write_package(root, pkg, rng, cpp=False, python=False, js=False, versions=versions, expanded_p=expanded_p)


def rewrites(report, sc, ybin, inproc, seed, n):
    for i in range(n):
        g = modelgen.Gen(seed * 100169 + i)
        g.avoid_bool_sequences = False
        pkg = g.gen_package(n_imports=0)
        rr = random.Random(seed * 13 + i)
        base_root = sc.path(f"r{i}-old")
        _write_pkg(base_root, pkg, random.Random(1))
        old_dir = os.path.join(base_root, "pkg_" + pkg.namespace)
        variants = []
        variants.append(("identity", copy.deepcopy(pkg), 0.25, "ok"))
        p = copy.deepcopy(pkg)
        rr.shuffle(p.defs)
        variants.append(("definition-order", p, 0.25, "ok"))
        p = copy.deepcopy(pkg)
        p.defs.insert(0, {"kind": "record", "name": "ZzUnused", "tparams": [], "fields": [("q", ("prim", "int32"))]})
        p.defs.append({"kind": "alias", "name": "ZzAlias", "tparams": [], "type": ("vec", ("prim", "string"), None)})
        variants.append(("unused-definitions", p, 0.25, "ok"))
        p = copy.deepcopy(pkg)
        for d in p.defs:
            d["comment"] = "documentation for " + d["name"]
        variants.append(("comments", p, 0.25, "ok"))
        variants.append(("respelled", copy.deepcopy(pkg), 0.95, "ok"))
        # rename a record / enum and keep the old name as an alias (docs: "Renaming a Record")
        p = copy.deepcopy(pkg)
        cands = [d for d in p.defs if d["kind"] in ("record", "enum") and not d.get("tparams")]
        if cands:
            d = rr.choice(cands)
            oldname = d["name"]
            d["name"] = oldname + "Renamed"
            _rename_refs(p, oldname, d["name"])
            p.defs.append({"kind": "alias", "name": oldname, "tparams": [], "type": ("named", d["name"], [])})
            variants.append(("rename-through-alias", p, 0.25, "ok"))
        # a generic's type argument changes, possibly reached through an alias in one version only (docs: incompatible)
        for vname, via in (("typearg-change", None), ("typearg-change-via-alias-in-new", "new"), ("typearg-change-via-alias-in-old", "old")):
            x = _typearg_change(pkg, rr, via)
            if x is not None:
                oldp, newp = x
                variants.append((vname, (oldp, newp), 0.25, "err"))
        for vname, p2, ep, want in variants:
            root = sc.path(f"r{i}-{vname}")
            if isinstance(p2, tuple):
                oroot = sc.path(f"r{i}-{vname}-old")
                _write_pkg(oroot, p2[0], random.Random(1))
                od = os.path.join(oroot, "pkg_" + pkg.namespace)
                p2 = p2[1]
            else:
                od = old_dir
            _write_pkg(root, p2, random.Random(2), versions=[("v0", os.path.relpath(od, os.path.join(root, "pkg_" + pkg.namespace)))], expanded_p=ep)
            nd = os.path.join(root, "pkg_" + pkg.namespace)
            verdict, res = real_verdict(inproc, nd)
            report.case(distinct_key=(i, vname))
            report.count("rewrite." + vname)
            replay = {"seed": seed, "model_index": i, "rewrite": vname, "files": files_of(od, nd),
                      "tool": {k2: res[k2] for k2 in res if k2 in ("evolutionError", "evolutionWarnings", "panic", "validateError", "parseError", "versionError", "stderr")}}
            if verdict in ("panic", "crash"):
                report.violation("tool:panic-in-evolution", replay, "comparing two individually valid versions crashed")
            elif verdict == "invalid":
                report.violation("harness:rewrite-invalid:" + vname, replay, "no-failing-input-found")
            elif verdict != want:
                report.violation(f"documented-class:{vname}:expected-{want}-got-{verdict}", dict(replay, documented=want, got=verdict),
                                 "a meaning-preserving rewrite is not silently compatible" if want == "ok" else "a documented breaking change is accepted")


def _map_type(t, f):
    t = f(t)
    k = t[0]
    if k == "named":
        return ("named", t[1], [_map_type(a, f) for a in t[2]])
    if k == "opt":
        return ("opt", _map_type(t[1], f))
    if k == "union":
        return ("union", t[1], [(c[0], _map_type(c[1], f)) for c in t[2]])
    if k == "vec":
        return ("vec", _map_type(t[1], f), t[2])
    if k == "arr":
        return ("arr", _map_type(t[1], f), t[2])
    if k == "map":
        return ("map", _map_type(t[1], f), _map_type(t[2], f))
    return t


def _map_pkg_types(p, f):
    for d in p.defs:
        if d["kind"] == "record":
            d["fields"] = [(n, _map_type(t, f)) for n, t in d["fields"]]
        elif d["kind"] == "alias":
            d["type"] = _map_type(d["type"], f)
        elif d["kind"] == "protocol":
            d["steps"] = [(n, _map_type(t, f), s) for n, t, s in d["steps"]]


def _rename_refs(p, old, new):
    _map_pkg_types(p, lambda t: ("named", new, t[2]) if t[0] == "named" and t[1] == old else t)


def _typearg_change(pkg, rr, via):
    """(old package, new package) where one protocol step's generic instantiation changes a type argument"""
    old = copy.deepcopy(pkg)
    old.defs.append({"kind": "record", "name": "ZzBox", "tparams": ["T"], "fields": [("v", ("tparam", "T")), ("n", ("prim", "uint8"))]})
    new = copy.deepcopy(old)
    a, b = rr.sample(["float32", "float64", "int32", "int64", "uint16"], 2)
    told, tnew = ("named", "ZzBox", [("prim", a)]), ("named", "ZzBox", [("prim", b)])
    if via == "new":
        new.defs.append({"kind": "alias", "name": "ZzBoxed", "tparams": [], "type": tnew})
        tnew = ("named", "ZzBoxed", [])
    if via == "old":
        old.defs.append({"kind": "alias", "name": "ZzBoxed", "tparams": [], "type": told})
        told = ("named", "ZzBoxed", [])
    stream = rr.random() < 0.5
    old.defs.append({"kind": "protocol", "name": "ZzP", "steps": [("box", told, stream), ("tail", ("prim", "int32"), False)]})
    new.defs.append({"kind": "protocol", "name": "ZzP", "steps": [("box", tnew, stream), ("tail", ("prim", "int32"), False)]})
    return old, new
