"""C18 — package imports resolve correctly for every import graph.

Proof: Props/C18.lean (what a successful load guarantees, for every graph; kernel-evaluated witnesses).
Correspondence: for every world (directories with a namespace and an ordered import list)
  Lean model verdict  ==  independent graph-theoretic specification  ==  real `yardl validate`
exhaustively for all worlds on <= 2 packages (every ordered import list incl. self-imports and shared
namespaces), a sample (quick) or all (thorough) on 3, random larger ones, chains and diamonds around
the depth limit, and permuted import lists (order independence).
"""
import itertools
import json
import os
import random
import re
import shutil

import gen_tables
import vlib

THEOREMS = ["Yardl.C18.load_ok_sound", "Yardl.C18.every_reachable_package_loaded",
            "Yardl.C18.namespace_conflict_is_an_error", "Yardl.C18.missing_import_is_an_error",
            "Yardl.C18.two_cycle_rejected", "Yardl.C18.self_import_rejected",
            "Yardl.C18.cycle_through_second_import_rejected", "Yardl.C18.diamond_accepted",
            "Yardl.C18.conflict_rejected", "Yardl.C18.deep_chain_rejected", "Yardl.C18.order_dependence_at_limit",
            "Yardl.C18.every_importer_references_all_its_imports", "Yardl.C18.namespaces_are_listed_imports_first",
            "Yardl.C18.names_resolve_into_imported_packages_only", "Yardl.C18.imported_types_are_usable", "Yardl.C18.child_references_are_imports",
            "Yardl.C18.a_package_sees_exactly_what_it_imports", "Yardl.C18.transitively_imported_types_are_usable"]


def spec(world, root, limit):
    """Independent specification: {'ok'} or the set of defects present among reachable packages."""
    defects = set()
    reach, stack = [], [root]
    while stack:
        d = stack.pop()
        if d in reach:
            continue
        reach.append(d)
        if d >= len(world):
            defects.add("missing")
            continue
        stack.extend(world[d]["imports"])
    reach = [d for d in reach if d < len(world)]
    ns_dirs = {}
    for d in reach:
        ns_dirs.setdefault(world[d]["ns"], set()).add(d)
    if any(len(v) > 1 for v in ns_dirs.values()):
        defects.add("conflict")
    # cycle among reachable dirs (by namespace identity, as the tool tracks namespaces)
    color = {}

    def dfs(d):
        color[d] = 1
        for i in world[d]["imports"]:
            if i >= len(world):
                continue
            if color.get(i) == 1 or (color.get(i) is None and dfs(i)):
                return True
        color[d] = 2
        return False
    if root < len(world) and dfs(root):
        defects.add("cycle")
    # longest simple path from root (in edges) when acyclic
    if "cycle" not in defects and root < len(world):
        memo = {}

        def lp(d):
            if d not in memo:
                memo[d] = 1 + max([lp(i) for i in world[d]["imports"] if i < len(world)], default=0)
            return memo[d]
        longest = lp(root) - 1   # edges on the longest path from the root
        if longest > limit:
            defects.add("depth")
        elif longest == limit:
            defects.add("depth-at-limit")   # verdict depends on import order (known finding region)
    return defects or {"ok"}


def place(d, layout):
    """directory of package `d` below the world's root. 'flat': siblings d0, d1, ...; 'groups': two parent directories holding packages with the
    same base names (g0/p1 and g1/p1), so that one relative import string ('../p1') written in different packages means different directories;
    'deep': every package at its own nesting depth"""
    if layout == "groups":
        return f"g{d % 2}/p{d // 2}"
    if layout == "deep":
        return "/".join(["n"] * (d % 3) + [f"d{d}"])
    return f"d{d}"


def write_world(root_dir, world, outputs_of=None, layout="flat", extra_uses=()):
    for d, p in enumerate(world):
        pd = os.path.join(root_dir, place(d, layout))
        os.makedirs(pd, exist_ok=True)
        man = [f"namespace: Ns{p['ns']}"]
        if p["imports"]:
            man.append("imports:")
            man += ["  - " + os.path.relpath(os.path.join(root_dir, place(i, layout)), pd) for i in p["imports"]]
        if outputs_of == d:
            up = os.path.relpath(root_dir, pd)
            man += ["python:", f"  outputDir: {up}/out_py", "json:", f"  outputDir: {up}/out_json"]
        open(os.path.join(pd, "_package.yml"), "w").write("\n".join(man) + "\n")
        lines = [f"T{d}: int"]
        seen = set()
        for i in p["imports"]:
            if i < len(world) and i != d and world[i]["ns"] != p["ns"] and i not in seen:
                seen.add(i)
                lines.append(f"Use{d}x{i}: Ns{world[i]['ns']}.T{i}")   # imported types usable under their namespace
        for (a, b) in extra_uses:
            if a == d:
                lines.append(f"See{a}x{b}: Ns{world[b]['ns']}.T{b}")    # a package named without (necessarily) being imported by this one
        open(os.path.join(pd, "model.yml"), "w").write("\n".join(lines) + "\n")


def cli_verdict(ybin, root_dir, root, layout="flat"):
    import subprocess
    try:
        rc, out, err = vlib.yardl(ybin, os.path.join(root_dir, place(root, layout)), "validate", timeout=10)
    except subprocess.TimeoutExpired:
        return "hang", "yardl validate did not terminate within 10 s"
    text = err + out
    if rc == 0:
        return "ok", text
    if "import cycle" in text:
        return "cycle", text
    if "conflicts with" in text:
        return "conflict", text
    if "maximum number of recursive imports" in text:
        return "depth", text
    if "not found" in text or "is missing" in text:
        return "missing", text
    return f"other(rc={rc})", text


def run(report, tier, seed):
    quick = tier == "quick"
    report.rule = ("a case = one world (packages with namespace + ordered import list) judged by model, specification and CLI; "
                   "exhaustive for <= 2 packages, sampled (quick) / exhaustive (thorough) for 3, random up to 14 packages, chains and "
                   "diamonds around the depth limit, permuted import orders; non-trivial = at least one import edge")
    rng = random.Random(seed * 7 + 18)
    with vlib.Scratch("vf-c18-") as sc:
        gen_tables.generate(sc)
        lean_ok, _ = vlib.check_lean(report, "Props.C18", THEOREMS)
        if not lean_ok:
            report.violation("lean:Props.C18", {"theorem_or_correspondence": "Props.C18 does not build or audit",
                                                "log": (report.extra.get("lean_build_log") or report.extra.get("lean_axiom_log", ""))[-3000:]},
                             "no-failing-input-found")
        limit = int(re.search(r"def maxImportDepth : Nat := (\d+)", open(os.path.join(vlib.LEAN_DIR, "YardlGenerated", "Tables.lean")).read()).group(1))
        ybin = vlib.build_yardl(sc)
        lean = vlib.LeanDriver("wiredrv")
        worlds = []
        # exhaustive small worlds
        for n in (1, 2):
            subsets = [list(p) for k in range(n + 1) for p in itertools.permutations(range(n), k)]
            for combo in itertools.product(subsets, repeat=n):
                for nss in ([list(range(n))] + ([[0, 0]] if n == 2 else [])):
                    worlds.append([{"ns": nss[d], "imports": combo[d]} for d in range(n)])
        subsets3 = [list(p) for k in range(4) for p in itertools.permutations(range(3), k)]
        all3 = [[{"ns": d, "imports": combo[d]} for d in range(3)] for combo in itertools.product(subsets3, repeat=3)]
        worlds += rng.sample(all3, 250) if quick else all3
        worlds += [[{"ns": [0, 1, 1][d], "imports": c[d]} for d in range(3)] for c in rng.sample(list(itertools.product(subsets3, repeat=3)), 40 if quick else 600)]
        # random larger worlds (mostly acyclic, some back edges, some shared namespaces, some dangling dirs)
        for _ in range(60 if quick else 3000):
            n = rng.randrange(4, 15)
            w = []
            for d in range(n):
                k = rng.choice([0, 1, 1, 2, 3])
                cand = list(range(d + 1, n)) if rng.random() < 0.85 else list(range(n))
                rng.shuffle(cand)
                imps = cand[:k]
                if rng.random() < 0.03:
                    imps.append(n + 3)   # dangling
                w.append({"ns": d if rng.random() < 0.97 else rng.randrange(n), "imports": imps})
            worlds.append(w)
        # chains and diamonds around the limit
        for length in range(limit - 2, limit + 3):
            worlds.append([{"ns": d, "imports": [d + 1] if d < length else []} for d in range(length + 1)])
        for first in (1, limit):
            chain = [{"ns": 0, "imports": [first, limit + 1 - first] if first == 1 else [limit, 1]}]
            chain += [{"ns": d, "imports": [d + 1]} for d in range(1, limit)] + [{"ns": limit, "imports": []}]
            worlds.append(chain)
        # wide and shallow: many importing packages at nesting depth 2 (the limit is about the depth of a chain, not about how many
        # packages import something), the last newcomer first / in the middle / last in the root's import list
        for k in (limit - 2, limit - 1, limit, limit + 1, limit + 3):
            for pos in ("first", "middle", "last"):
                mids = list(range(1, k + 1))
                base, leaf = k + 1, k + 2
                imps = [leaf] + mids if pos == "first" else mids + [leaf] if pos == "last" else mids[:k // 2] + [leaf] + mids[k // 2:]
                w = [{"ns": 0, "imports": imps}] + [{"ns": d, "imports": [base]} for d in mids] + [{"ns": base, "imports": []}, {"ns": leaf, "imports": [base]}]
                worlds.append(w)
        # two layers of importers: root -> a_i -> b_i -> base (depth 3), more importers than the limit in total
        for k in (limit // 2, limit // 2 + 1, limit):
            a = list(range(1, k + 1))
            b = list(range(k + 1, 2 * k + 1))
            base = 2 * k + 1
            worlds.append([{"ns": 0, "imports": a}] + [{"ns": d, "imports": [b[i]]} for i, d in enumerate(a)] + [{"ns": d, "imports": [base]} for d in b] + [{"ns": base, "imports": []}])
        # twins: under the 'groups' layout packages 2k and 2k+1 have the same base name in two parent directories, so an importer in g0 and an importer
        # in g1 write the very same relative string for different directories (different namespaces: both must load; same namespace: a conflict)
        twins = []
        for ns3 in (3, 2):
            twins.append([{"ns": 0, "imports": [2, 1]}, {"ns": 1, "imports": [3]}, {"ns": 2, "imports": []}, {"ns": ns3, "imports": []}])
            twins.append([{"ns": 0, "imports": [1, 2]}, {"ns": 1, "imports": [3]}, {"ns": 2, "imports": []}, {"ns": ns3, "imports": []}])
            twins.append([{"ns": 0, "imports": [2, 3]}, {"ns": 1, "imports": []}, {"ns": 2, "imports": [4]}, {"ns": 3, "imports": [5]}, {"ns": 4, "imports": []}, {"ns": 5 if ns3 == 3 else 4, "imports": []}])
        for k, w in enumerate(twins):
            _judge(report, sc, ybin, lean, w, 0, limit, 100000 + k, rng, seed, layout="groups")
            if spec(w, 0, limit) == {"ok"}:
                _usable(report, sc, ybin, w, 0, 100000 + k, seed, layout="groups", lean=lean)
        for idx, world in enumerate(worlds):
            _judge(report, sc, ybin, lean, world, 0, limit, idx, rng, seed)
            # the same world laid out differently on disk: the verdict is about the graph, not about where the directories sit
            if len(world) >= 3 and (idx % 4 == 0 or len(world) <= 5):
                _judge(report, sc, ybin, lean, world, 0, limit, idx, rng, seed, layout="groups" if idx % 3 else "deep")
        # usable: every order of every import list of the diamond / shortcut worlds (all are accepted)
        k = 0
        for w in _usable_worlds(limit):
            orders = list(itertools.product(*[list(itertools.permutations(p["imports"])) for p in w]))
            if len(orders) > (12 if quick else 200):
                orders = rng.sample(orders, 12 if quick else 200)
            for combo in orders:
                k += 1
                _usable(report, sc, ybin, [{"ns": p["ns"], "imports": list(c)} for p, c in zip(w, combo)], 0, k, seed, layout=("flat", "groups", "deep")[k % 3], lean=lean)
        # and random accepted worlds
        acc = [w for w in worlds if 3 <= len(w) <= 8 and spec(w, 0, limit) == {"ok"} and sum(len(p["imports"]) for p in w) >= 3]
        for w in (acc[:10] if quick else acc[:150]):
            k += 1
            _usable(report, sc, ybin, w, 0, k, seed, lean=lean)
        # visibility: a package refers to the types of another loaded package - accepted exactly when it imports that package, directly or
        # through its imports (Resolve.visible); every ordered pair of the small worlds, a sample of the random ones
        vis_worlds = [(w, 0) for w in _usable_worlds(limit)] + [([{"ns": 0, "imports": [1, 2]}, {"ns": 1, "imports": []}, {"ns": 2, "imports": []}], 0),
                                                                ([{"ns": 0, "imports": [2, 1]}, {"ns": 1, "imports": []}, {"ns": 2, "imports": [3]}, {"ns": 3, "imports": []}], 0)]
        vis_worlds += [(w, 0) for w in (acc[:4] if quick else acc[:60])]
        for wi, (w, root) in enumerate(vis_worlds):
            if len({p["ns"] for p in w}) != len(w):
                continue
            reach = sorted(_reach(w, root))
            graph = [[w[x]["ns"], [w[i]["ns"] for i in w[x]["imports"]]] for x in reach]
            m = lean.ask({"op": "namespaces", "graph": graph, "root": w[root]["ns"]})
            visible = {e[0]: set(e[1]) for e in m["visible"]}
            pairs = [(a, b) for a in reach for b in reach if a != b]
            if len(pairs) > (8 if quick else 30):
                pairs = rng.sample(pairs, 8 if quick else 30)
            for (a, b) in pairs:
                d = sc.path(f"vis{wi}_{a}_{b}")
                write_world(d, w, layout=("flat", "groups")[wi % 2], extra_uses=[(a, b)])
                verdict, text = cli_verdict(ybin, d, root, layout=("flat", "groups")[wi % 2])
                want = "ok" if w[b]["ns"] in visible.get(w[a]["ns"], set()) else "rejected"
                got = "ok" if verdict == "ok" else "rejected"
                report.case(distinct_key=("visible", json.dumps(w), a, b))
                report.count("visibility." + want)
                if got != want:
                    report.violation(f"visibility:{'uses-a-package-it-does-not-import' if got == 'ok' else 'imported-package-not-visible'}",
                                     {"world": w, "root": root, "user": a, "used": b, "model_visible_from_user": sorted(visible.get(w[a]["ns"], [])), "tool": verdict,
                                      "output": text[-800:], "seed": seed, "theorem_or_correspondence": "Resolve.visible vs yardl validate"},
                                     "a package can refer to exactly the packages it imports, directly or through its imports")
                shutil.rmtree(d, ignore_errors=True)
        lean.close()


def _judge(report, sc, ybin, lean, world, root, limit, idx, rng, seed, permuted=False, layout="flat"):
    m = lean.ask({"op": "collect", "world": world, "limit": limit, "root": root})
    model = m["verdict"]
    s = spec(world, root, limit)
    d = sc.path(f"w{idx}{'p' if permuted else ''}{layout}")
    write_world(d, world, layout=layout)
    cli, text = cli_verdict(ybin, d, root, layout)
    shutil.rmtree(d, ignore_errors=True)
    report.count(f"layout.{layout}")
    nontrivial = any(p["imports"] for p in world)
    report.case(distinct_key=json.dumps(world) if nontrivial else None,
                sample={"world": world, "model": model, "spec": sorted(s), "cli": cli} if idx % 97 == 5 else None)
    report.count(f"verdict.{model}")
    replay = {"world": world, "root": root, "limit": limit, "model": model, "spec": sorted(s), "cli": cli, "cli_output": text[-600:], "seed": seed,
              "directories": [place(x, layout) for x in range(len(world))]}
    if model != cli:
        report.violation(f"model-vs-cli:{model}:{cli}", dict(replay, theorem_or_correspondence="Imports.collect vs yardl validate"),
                         "the loader's verdict differs from the model of collectPackages")
        return
    # property oracle on the implementation
    if "depth-at-limit" in s:
        if cli == "depth" and s == {"depth-at-limit"}:
            # longest path == limit: accepted or rejected depending on import order (known finding)
            report.violation("order-dependence-at-depth-limit", dict(replay), "")
        return
    if s == {"ok"}:
        if cli != "ok":
            report.violation(f"valid-graph-rejected:{cli}", replay, "an acyclic, conflict-free, shallow import graph is rejected")
            return
        got = sorted(m.get("namespaces", []))
        want = sorted({world[x]["ns"] for x in _reach(world, root)})
        if got != want:
            report.violation("loaded-set-differs", dict(replay, loaded=got, reachable=want), "")
        if not permuted and nontrivial and rng.random() < 0.3:
            w2 = [{"ns": p["ns"], "imports": rng.sample(p["imports"], len(p["imports"]))} for p in world]
            _judge(report, sc, ybin, lean, w2, root, limit, idx, rng, seed, permuted=True)
    else:
        if cli == "ok":
            report.violation(f"defective-graph-accepted:{'+'.join(sorted(s))}", replay,
                             "a cyclic / conflicting / too deep / dangling import graph is accepted")
        elif len(s) == 1 and cli not in s:
            # the property only demands *an* error; which check fires first (namespace on the import chain
            # before namespace/directory conflict) is not part of it
            report.count(f"error-class.{sorted(s)[0]}-reported-as-{cli}")


def _usable(report, sc, ybin, world, root, tag, seed, layout="flat", lean=None):
    """an accepted world is generated (Python) and the package imported: every importer can use the types of what it imports
    (write_world gives every package an alias to a type of each package it imports), whatever the order of the import lists"""
    import subprocess
    d = sc.path(f"u{tag}{layout}")
    write_world(d, world, outputs_of=root, layout=layout)
    rc, out, err = vlib.yardl(ybin, os.path.join(d, place(root, layout)), "generate", timeout=30)
    report.case(distinct_key=("usable", json.dumps(world), root))
    report.count("usable.generated")
    replay = {"world": world, "root": root, "seed": seed, "what": "generate Python for an accepted world and import it", "directories": [place(x, layout) for x in range(len(world))]}
    if rc != 0:
        report.violation("accepted-world-does-not-generate", dict(replay, output=(out + err)[-1200:]), "yardl validate accepts the import graph but generate fails")
        shutil.rmtree(d, ignore_errors=True)
        return None
    mods = [x for x in os.listdir(os.path.join(d, "out_py")) if os.path.isdir(os.path.join(d, "out_py", x))]
    mod = mods[0] if len(mods) == 1 else "no_single_generated_package"
    p = subprocess.run(["python3-vt", "-c", f"import sys; sys.path.insert(0, {os.path.join(d, 'out_py')!r}); import {mod}"], stdout=subprocess.PIPE, stderr=subprocess.PIPE, timeout=120)
    if p.returncode != 0:
        last = (p.stderr.decode(errors="replace").strip().splitlines() or ["?"])[-1]
        report.violation("imported-types-not-usable:" + re.sub(r"\d+", "N", last)[:80], dict(replay, stderr=p.stderr.decode(errors="replace")[-1500:]),
                         "the generated code of a package cannot use the types of a package it imports")
    # the JSON model dump lists the loaded namespaces: same set whatever the order
    dump = ""
    try:
        dump = open(os.path.join(d, "out_json", "model.json")).read()
    except OSError:
        pass
    shutil.rmtree(d, ignore_errors=True)
    if lean is not None and dump:
        # env.Namespaces (the order model.json lists them in) is the post-order of parsePackageNamespaces + flattenNamespaces: imports before importers
        try:
            got = [int(n["name"][2:]) for n in json.loads(dump)["namespaces"]]
        except Exception:   # noqa: BLE001
            got = None
        reach = _reach(world, root)
        graph = [[world[x]["ns"], [world[i]["ns"] for i in world[x]["imports"]]] for x in sorted(reach)]
        m = lean.ask({"op": "namespaces", "graph": graph, "root": world[root]["ns"]})
        report.count("namespaces.order-compared")
        if got != m["order"]:
            report.violation("namespace-order-differs-from-model", dict(replay, model_order=m["order"], tool_order=got, model_references=m["references"],
                                                                        theorem_or_correspondence="Namespaces.parseNs / flatten vs the namespaces of model.json"),
                             "the namespaces the passes and generators see are not the post-order of the import graph")
    return dump


def _usable_worlds(limit):
    """diamonds and shortcut edges: a package reachable along several paths, first reached through different importers"""
    ws = []
    ws.append([{"ns": 0, "imports": [1, 2]}, {"ns": 1, "imports": []}, {"ns": 2, "imports": [1]}])                       # Top [Basic, Mid], Mid [Basic]
    ws.append([{"ns": 0, "imports": [1, 2]}, {"ns": 1, "imports": [3]}, {"ns": 2, "imports": [3]}, {"ns": 3, "imports": []}])   # diamond
    ws.append([{"ns": 0, "imports": [1, 2, 3]}, {"ns": 1, "imports": [2, 3]}, {"ns": 2, "imports": [3]}, {"ns": 3, "imports": []}])  # every shortcut
    ws.append([{"ns": 0, "imports": [1, 2]}, {"ns": 1, "imports": [3, 4]}, {"ns": 2, "imports": [4, 3]}, {"ns": 3, "imports": [4]}, {"ns": 4, "imports": []}])
    return ws


def _reach(world, root):
    seen, stack = set(), [root]
    while stack:
        d = stack.pop()
        if d in seen or d >= len(world):
            continue
        seen.add(d)
        stack.extend(world[d]["imports"])
    return seen
