"""C20 — watch mode converges to the output for the final package contents.

Proof: Props/C20.lean over YardlModel/Watch.lean (the bookkeeping of dedupLoop as a state machine:
with at most one regeneration in flight and a remembered pending firing, every quiescent state has the
output of the final contents on disk — for all interleavings; one goroutine per firing can be
overtaken; "skip when busy" drops the last save).
Tie / runtime part: the real `yardl generate --watch`, built from the current tree with the `verif`
tag (hook: one regeneration can be delayed after it has read the package), is driven with real file
saves: directed schedules (a slow regeneration overtaken by a fast one, saves during a regeneration,
bursts, invalid intermediate contents, edits of a second file) and random ones. Once edits stop and
the output is stable, the output directories must equal those of a one-shot `yardl generate` of the
final contents, and the watcher must still be running.
"""
import filecmp
import os
import random
import shutil
import subprocess
import time

import vlib

THEOREMS = ["Yardl.C20.serialized_converges", "Yardl.C20.invalid_intermediate_states_are_harmless", "Yardl.C20.concurrent_can_be_overtaken",
            "Yardl.C20.skip_if_busy_drops_the_last_save", "Yardl.C20.concurrent_converges_if_fifo"]

# the watched package imports Lib, which imports Base: the invalid intermediate states include those of the imported packages
MANIFEST = ("namespace: Watch\nimports:\n  - ../lib\npython:\n  outputDir: ../out_py\njson:\n  outputDir: ../out_json\nmatlab:\n  outputDir: ../out_matlab\n"
            "cpp:\n  sourcesOutputDir: ../out_cpp\n  generateCMakeLists: false\n")
OUT_DIRS = ("out_py", "out_json", "out_matlab", "out_cpp")
LIB_MANIFESTS = {
    "valid": "namespace: Lib\nimports:\n  - ../base\n",
    "unsupported-scheme": "namespace: Lib\nimports:\n  - ../base\n  - http://example.invalid/units\n",
    "missing-directory": "namespace: Lib\nimports:\n  - ../base\n  - ../nowhere\n",
    "empty-url": "namespace: Lib\nimports:\n  - ../base\n  - \"\"\n",
    "yaml-error": "namespace: Lib\nimports: [../base\n",
    "no-namespace": "imports:\n  - ../base\n",
    "standalone": "namespace: Lib\n",
}


def lib_model(version, valid=True, standalone=False):
    return f"LibRec: !record\n  fields:\n    b: " + ("float" if standalone else "Base.BaseRec") + f"\n    l{version}: " + ("int" if valid else "NoSuchType") + "\n"


def base_model(version):
    return f"BaseRec: !record\n  fields:\n    x{version}: float\n"



def model(version, valid=True, n_extra=0):
    s = f"# version {version}\nHeader: !record\n  fields:\n    id: uint32\n    lib: Lib.LibRec\n"
    for i in range(version % 7 + n_extra):
        s += f"    f{i}v{version}: " + ("int32" if valid or i else "NoSuchType") + "\n"
    if not valid:
        s += "    broken: NoSuchType\n"
    s += f"Sample{version}: !record\n  fields:\n    t: float32\nP: !protocol\n  sequence:\n    header: Header\n    samples: !stream\n      items: Sample{version}\n"
    return s


def run(report, tier, seed):
    quick = tier == "quick"
    report.rule = ("a case = one schedule of saves (timing, delayed regeneration, invalid intermediate contents) applied to a running `yardl generate --watch`; "
                   "distinct = distinct schedules; non-trivial = at least two saves")
    lean_ok, _ = vlib.check_lean(report, "Props.C20", THEOREMS)
    if not lean_ok:
        report.violation("lean:Props.C20", {"theorem_or_correspondence": "Props.C20 does not build or audit",
                                            "log": (report.extra.get("lean_build_log") or report.extra.get("lean_axiom_log", ""))[-3000:]},
                         "no-failing-input-found")
    with vlib.Scratch("vf-c20-") as sc:
        ybin = vlib.build_yardl(sc, tags="verif")
        rng = random.Random(seed * 9001 + 20)
        schedules = directed_schedules()
        for i in range(6 if quick else 60):
            schedules.append((f"random-{i}", random_schedule(rng)))
        schedules += same_name_schedules(rng, 3 if quick else 30)
        # the same watcher started with --config overrides: they hold for every regeneration, not only for the first
        S = lambda v, **kw: ("save", v, kw)
        schedules += [("overrides-edit-after-start", [("config-overrides",), S(1), ("sleep", 600), S(2), ("sleep", 600), S(3)]),
                      ("overrides-invalid-then-valid", [("config-overrides",), S(1), ("sleep", 300), S(2, valid=False), ("sleep", 300), S(3), ("sleep", 200), ("save2", 4)]),
                      ("overrides-burst", [("config-overrides",)] + [S(v, gap=2) for v in range(1, 8)])]
        import concurrent.futures
        with concurrent.futures.ThreadPoolExecutor(max_workers=6) as ex:
            results = list(ex.map(lambda a: execute(ybin, sc.path(f"w{a[0]}"), a[1][1]), enumerate(schedules)))
        for (name, sched), res in zip(schedules, results):
            report.case(distinct_key=(name, str(sched)), sample={"schedule": name, "steps": sched[:8]} if name.startswith("overtaken") else None)
            report.count("schedule." + name.split("-")[0])
            replay = {"seed": seed, "schedule": name, "steps": sched, **{k: v for k, v in res.items() if k != "ok"}}
            if res.get("harness"):
                report.violation("harness:watch-driver", dict(replay, theorem_or_correspondence="watch driver"), "no-failing-input-found")
            elif not res["alive"]:
                report.violation(f"watcher-died:{name.split('-')[0]}", replay, "the watcher exited while the package went through the schedule")
            elif res["diff"]:
                report.violation(f"stale-or-mixed-output:{name.split('-')[0]}", replay,
                                 "after edits stopped the files on disk differ from a one-shot generate of the final contents")


def directed_schedules():
    S = lambda v, **kw: ("save", v, kw)
    return [
        ("overtaken-slow-regeneration", [("delay", 700), S(1), ("sleep", 120), S(2), ("sleep", 30)]),
        ("overtaken-twice", [("delay", 900), S(1), ("sleep", 100), S(2), ("sleep", 100), S(3)]),
        ("save-during-regeneration", [("delay", 300), S(1), ("sleep", 60), S(2)]),
        ("last-save-during-regeneration-then-silence", [("delay", 500), S(1), ("sleep", 40), S(2), ("sleep", 2000)]),
        ("burst", [S(v, gap=1) for v in range(1, 12)]),
        ("invalid-intermediate", [S(1), ("sleep", 50), S(2, valid=False), ("sleep", 80), S(3)]),
        ("invalid-during-delay", [("delay", 400), S(1, valid=False), ("sleep", 50), S(2)]),
        ("second-file", [S(1), ("sleep", 30), ("save2", 5), ("sleep", 30), S(2), ("save2", 6)]),
        ("touch-only", [S(1), ("sleep", 100), S(1), ("sleep", 3), S(1)]),
    ] + [
        # an imported package goes through an invalid state (each kind of failure of its own import list), is repaired, and the
        # watched package keeps being edited
        (f"imported-package-invalid-{kind}", [S(1), ("sleep", 150), ("lib-manifest", kind), ("sleep", 30), S(2), ("sleep", 400), ("lib-manifest", "valid"), ("sleep", 30), S(3),
                                              ("sleep", 300), ("lib-model", 4), ("sleep", 30), S(4), ("sleep", 200), S(5)])
        for kind in LIB_MANIFESTS if kind not in ("valid", "standalone")
    ] + [
        # the last edit is made in an imported package (nothing is saved in the watched package afterwards)
        ("imports-edited-last", [S(1), ("sleep", 200), ("lib-model", 2), ("sleep", 300), ("base-model", 3), ("sleep", 500)]),
        # ... in the *only* referenced package (Lib without imports of its own)
        ("single-import-edited-last", [("init-standalone-lib",), S(1), ("sleep", 200), ("lib-model", 2, True, True), ("sleep", 500)]),
        # ... after a regeneration failed because of it
        ("import-broken-then-repaired-there", [S(1), ("sleep", 150), ("lib-model", 2, False), ("sleep", 400), ("lib-model", 3), ("sleep", 600)]),
        ("import-manifest-broken-then-repaired-there", [S(1), ("sleep", 150), ("lib-manifest", "yaml-error"), ("sleep", 400), ("lib-manifest", "valid"), ("sleep", 100), ("base-model", 5), ("sleep", 600)]),
        # a model file in a subdirectory of the package (parsed like the others)
        ("subdirectory-file-edited-last", [S(1), ("sleep", 200), ("save-sub", 2), ("sleep", 300), ("save-sub", 3), ("sleep", 500)]),
        # a whole output section is deleted from the manifest while watching: a one-shot run no longer writes (or updates) that output
        ("output-section-deleted", [S(1), ("sleep", 900), ("manifest-without", "matlab"), ("sleep", 300), S(2), ("sleep", 400)]),
        # a save arrives while a slow *failing* regeneration is running, and nothing follows
        ("save-during-slow-failing-regeneration", [S(1), ("sleep", 200), ("save-big-invalid", 12000), ("sleep", 120), S(2), ("sleep", 3000)]),
    ] + [
        ("imported-model-invalid", [S(1), ("sleep", 100), ("lib-model", 2, False), ("sleep", 30), S(2), ("sleep", 300), ("lib-model", 3), ("sleep", 30), S(3), ("sleep", 200), ("base-model", 4), ("sleep", 30), S(4)]),
    ]


# the same definition names with different content from save to save: whatever a regeneration remembers about 'Settings', 'Pair<int, int>' or
# 'R1' must not survive into the next one (a one-shot generate starts from nothing)
SAME_NAMES = [
    """Mode: !enum
  values: {fast: 1, slow: 2}
Settings: !record
  fields:
    mode: Mode
    gain: float
Pair<A, B>: !record
  fields:
    first: A
    second: B
Scan: !record
  fields:
    settings: Settings
    p: Pair<int, int>
    q: Pair<string, Settings>
P: !protocol
  sequence:
    scans: !stream {items: Scan}
""",
    """Mode: !enum
  values: {idle: 0, fast: 1, slow: 2}
Settings: !record
  fields:
    mode: Mode
    gain: float
Pair<A, B>: !record
  fields:
    first: A
    second: B?
Scan: !record
  fields:
    settings: Settings
    p: Pair<int, int>
    q: Pair<string, Settings>
P: !protocol
  sequence:
    scans: !stream {items: Scan}
""",
    """Mode: !flags
  values: [fast, slow]
Settings: !record
  fields:
    mode: Mode
    gain: double*
    extra: [null, int, string]
Pair<A, B>: !record
  fields:
    first: A*
    second: string->B
Scan: !record
  fields:
    p: Pair<int, int>
    settings: Settings?
    q: Pair<string, Settings>
  computedFields:
    n: size(p.first)
P: !protocol
  sequence:
    head: Settings
    scans: !stream {items: Scan}
""",
]


def same_name_schedules(rng, n_random):
    import modelgen
    out = []
    S = lambda i: ("save-text", SAME_NAMES[i], f"same-names-{i}")
    for order in ([0, 1], [1, 0], [0, 1, 0], [0, 2, 1], [2, 1, 0, 2], [1, 2, 0]):
        steps = []
        for i in order:
            steps += [S(i), ("sleep", 700)]
        out.append(("samenames-" + "".join(map(str, order)), steps))
    # random packages: the generator numbers its definitions R1, E2, G3, ... so different packages reuse the same names
    texts = []
    for j in range(n_random + 2):
        g = modelgen.Gen(rng.randrange(1 << 30))
        g.avoid_bool_sequences = False
        pkg = g.gen_package(namespace="Watch", n_imports=0, n_defs=rng.choice([3, 5, 7]), n_protocols=1)
        texts.append(modelgen.package_files(pkg, random.Random(j), 0.3)["model.yml"])
    for j in range(n_random):
        seq = rng.sample(range(len(texts)), min(len(texts), rng.choice([2, 3, 4])))
        steps = []
        for i in seq:
            steps += [("save-text", texts[i], f"random-model-{i}"), ("sleep", rng.choice([400, 700, 1000]))]
        out.append((f"samenames-random-{j}", steps))
    return out


def random_schedule(rng):
    steps = []
    v = 0
    for _ in range(rng.choice([2, 3, 5, 8])):
        if rng.random() < 0.3:
            steps.append(("delay", rng.choice([50, 150, 400, 800])))
        v += 1
        steps.append(("save", v, {"valid": rng.random() > 0.2}))
        steps.append(("sleep", rng.choice([0, 1, 3, 6, 10, 30, 100, 250])))
        if rng.random() < 0.2:
            steps.append(("save2", v))
        if rng.random() < 0.25:
            steps.append(("lib-manifest", rng.choice(list(LIB_MANIFESTS))))
        if rng.random() < 0.2:
            steps.append(("lib-model", v, rng.random() > 0.3))
        if rng.random() < 0.15:
            steps.append(("base-model", v))
    # the final contents are valid
    v += 1
    steps += [("lib-manifest", "valid"), ("lib-model", v, True), ("sleep", 20)]
    steps.append(("save", v, {}))
    return steps


CONFIG_OVERRIDES = ["-c", "json.outputDir=../alt_json", "-c", "python.outputDir=../alt_py"]


def execute(ybin, root, steps):
    try:
        if steps and steps[0] == ("config-overrides",):
            return _execute(ybin, root, steps[1:], CONFIG_OVERRIDES)
        return _execute(ybin, root, steps)
    except Exception:   # noqa: BLE001
        import traceback
        return {"harness": traceback.format_exc()[-1500:], "alive": False, "diff": None}


def _write(path, text):
    with open(path, "w") as f:
        f.write(text)


def _execute(ybin, root, steps, cfg=()):
    pkg = os.path.join(root, "pkg")
    os.makedirs(pkg, exist_ok=True)
    _write(os.path.join(pkg, "_package.yml"), MANIFEST)
    _write(os.path.join(pkg, "model.yml"), model(0))
    _write(os.path.join(pkg, "extra.yml"), "Extra0: int32\n")
    for d, man, mdl in (("lib", LIB_MANIFESTS["valid"], lib_model(0)), ("base", "namespace: Base\n", base_model(0))):
        os.makedirs(os.path.join(root, d), exist_ok=True)
        _write(os.path.join(root, d, "_package.yml"), man)
        _write(os.path.join(root, d, "model.yml"), mdl)
    standalone_main = any(st[0] == "init-standalone-main" for st in steps)
    if any(st[0] == "init-standalone-lib" for st in steps):
        _write(os.path.join(root, "lib", "_package.yml"), LIB_MANIFESTS["standalone"])
        _write(os.path.join(root, "lib", "model.yml"), lib_model(0, True, True))
    os.makedirs(os.path.join(pkg, "sub"), exist_ok=True)
    _write(os.path.join(pkg, "sub", "more.yml"), "Sub0: int32\n")
    mdl = (lambda v, valid=True: model(v, valid).replace("    lib: Lib.LibRec\n", "")) if standalone_main else model
    if standalone_main:
        _write(os.path.join(pkg, "model.yml"), mdl(0))
    delay_file = os.path.join(root, "delay")
    log = open(os.path.join(root, "watch.log"), "wb")
    p = subprocess.Popen([ybin, "generate", "--watch"] + list(cfg), cwd=pkg, stdout=log, stderr=subprocess.STDOUT,
                         env=dict(os.environ, VERIF_WATCH_DELAY_FILE=delay_file, TERM="dumb"))
    try:
        js = os.path.join(root, "alt_json" if cfg else "out_json", "model.json")
        t0 = time.time()
        while not os.path.exists(js) and time.time() - t0 < 20:
            time.sleep(0.02)
        time.sleep(0.3)
        final, final2, max_delay = 0, 0, 0
        for st in steps:
            if st[0] == "sleep":
                time.sleep(st[1] / 1000.0)
            elif st[0] == "delay":
                _write(delay_file, str(st[1]))
                max_delay = max(max_delay, st[1])
            elif st[0] == "save":
                kw = st[2] if len(st) > 2 else {}
                _write(os.path.join(pkg, "model.yml"), mdl(st[1], kw.get("valid", True)))
                final = (st[1], kw.get("valid", True))
                if "gap" in kw:
                    time.sleep(kw["gap"] / 1000.0)
            elif st[0] == "save-text":
                _write(os.path.join(pkg, "model.yml"), st[1])
                final = (st[2], True)
            elif st[0] == "save2":
                _write(os.path.join(pkg, "extra.yml"), f"Extra{st[1]}: int32\n")
                final2 = st[1]
            elif st[0] == "lib-manifest":
                _write(os.path.join(root, "lib", "_package.yml"), LIB_MANIFESTS[st[1]])
            elif st[0] == "lib-model":
                _write(os.path.join(root, "lib", "model.yml"), lib_model(st[1], st[2] if len(st) > 2 else True, st[3] if len(st) > 3 else False))
            elif st[0] == "save-sub":
                _write(os.path.join(pkg, "sub", "more.yml"), f"Sub{st[1]}: int32\n")
            elif st[0] == "manifest-without":
                # the manifest without one of its top-level sections
                keep, skipping = [], False
                for line in MANIFEST.splitlines():
                    if not line.startswith(" "):
                        skipping = line.startswith(st[1] + ":")
                    if not skipping:
                        keep.append(line)
                # what that output directory holds now is what it must still hold at the end (a one-shot run would not touch it)
                shutil.copytree(os.path.join(root, "out_" + st[1]), os.path.join(root, "frozen_out_" + st[1]))
                _write(os.path.join(pkg, "_package.yml"), "\n".join(keep) + "\n")
            elif st[0] == "save-big-invalid":
                _write(os.path.join(pkg, "model.yml"), "".join(f"Big{i}: !record\n  fields:\n    a: int\n    b: Big{max(i - 1, 0)}?\n" for i in range(st[1])) + "Bad: !record\n  fields:\n    z: NoSuchType\n")
                final = (st[1], False)
            elif st[0] == "base-model":
                _write(os.path.join(root, "base", "model.yml"), base_model(st[1]))
        # quiescence: no pending delay, output unchanged for a while
        deadline = time.time() + 20
        last_sig, stable_since = None, time.time()
        time.sleep(max_delay / 1000.0 + 0.3)
        while time.time() < deadline:
            sig = _signature(root)
            if sig != last_sig or os.path.exists(delay_file):
                last_sig, stable_since = sig, time.time()
            elif time.time() - stable_since > 1.0:
                break
            time.sleep(0.05)
        alive = p.poll() is None
        # one-shot generate of the final contents
        ref = os.path.join(root, "ref")
        shutil.rmtree(ref, ignore_errors=True)
        os.makedirs(os.path.join(ref, "pkg"))
        for fn in ("_package.yml", "model.yml", "extra.yml"):
            shutil.copy(os.path.join(pkg, fn), os.path.join(ref, "pkg", fn))
        shutil.copytree(os.path.join(pkg, "sub"), os.path.join(ref, "pkg", "sub"))
        for d in ("lib", "base"):
            shutil.copytree(os.path.join(root, d), os.path.join(ref, d))
        r = subprocess.run([ybin, "generate"] + list(cfg), cwd=os.path.join(ref, "pkg"), stdout=subprocess.PIPE, stderr=subprocess.STDOUT)
        diff = None
        if r.returncode != 0:
            diff = "one-shot generate of the final contents failed: " + r.stdout.decode(errors="replace")[-500:]
        else:
            # the same output directories (with overrides: the overridden ones, and not the manifest's own), with the same content
            outs_ref = sorted(x for x in os.listdir(ref) if x.startswith(("out_", "alt_")))
            outs_watch = sorted(x for x in os.listdir(root) if x.startswith(("out_", "alt_")))
            for d in [x for x in outs_watch if x not in outs_ref and os.path.isdir(os.path.join(root, "frozen_" + x))]:
                # an output whose section was deleted from the manifest: untouched since then
                diff = diff or _tree_diff(os.path.join(root, "frozen_" + d), os.path.join(root, d))
                outs_watch.remove(d)
            if outs_ref != outs_watch:
                diff = diff or f"output directories differ: one-shot {outs_ref} vs watcher {outs_watch}"
            for d in outs_ref:
                diff = diff or _tree_diff(os.path.join(ref, d), os.path.join(root, d))
        return {"alive": alive, "diff": diff, "final_version": final, "watch_log_tail": open(os.path.join(root, "watch.log"), errors="replace").read()[-600:]}
    finally:
        p.kill()
        p.wait()
        log.close()


def _signature(root):
    sig = []
    for d in OUT_DIRS + ("alt_json", "alt_py"):
        for dp, _, fns in os.walk(os.path.join(root, d)):
            for fn in sorted(fns):
                fp = os.path.join(dp, fn)
                try:
                    st = os.stat(fp)
                    sig.append((fp, st.st_mtime_ns, st.st_size))
                except OSError:
                    pass
    return sig


def _tree_diff(a, b):
    fa = {os.path.relpath(os.path.join(dp, f), a) for dp, _, fns in os.walk(a) for f in fns if "__pycache__" not in dp}
    fb = {os.path.relpath(os.path.join(dp, f), b) for dp, _, fns in os.walk(b) for f in fns if "__pycache__" not in dp}
    if fa - fb:
        return "missing in the watcher's output: " + str(sorted(fa - fb)[:5])
    for f in sorted(fa):
        if not filecmp.cmp(os.path.join(a, f), os.path.join(b, f), shallow=False):
            la = open(os.path.join(a, f), errors="replace").read().split("\n")
            lb = open(os.path.join(b, f), errors="replace").read().split("\n")
            for i, (x, y) in enumerate(zip(la, lb)):
                if x != y:
                    return f"{f}:{i + 1}: one-shot {x[:120]!r} vs watcher {y[:120]!r}"
            return f"{f}: lengths differ"
    return None
