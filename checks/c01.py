"""C01 — binary round trip and wire-format conformance.

Proof: Props/C01.lean (value/stream/protocol round trip of the format, all sizes).
Correspondence: Lean-encoded reference streams -> generated C++ and Python readers+writers
(CopyTo / copy_to) -> bytes decoded by the Lean reference decoder -> values compared.
"""
import json
import os

import random

import codeclab
import modelgen
import streamcorr
import vlib

THEOREMS = ["Yardl.C01.value_round_trip", "Yardl.C01.stream_round_trip", "Yardl.C01.protocol_round_trip",
            "Yardl.C01.varint_round_trip", "Yardl.C01.zigzag_round_trip",
            "Yardl.C01.cpp_writer_refines", "Yardl.C01.py_writer_refines",
            "Yardl.C01.cpp_reader_refines_var64", "Yardl.C01.cpp_reader_refines_var32",
            "Yardl.C01.cpp_reader_refines_byte", "Yardl.C01.cpp_reader_refines_bytes",
            "Yardl.C01.cpp_reader_refines_sequence", "Yardl.C01.cpp_reader_sequence_then_finished",
            "Yardl.C01.written_by_either_stream_read_by_either", "Yardl.C01.python_stream_round_trip", "Yardl.C01.py_reader_refines_sequence", "Yardl.C01.py_reader_sequence_cut"]


def hexfile(path):
    with open(path, "rb") as f:
        return f.read().hex()


def run(report, tier, seed):
    quick = tier == "quick"
    n_models = 5 if quick else 40
    n_valsets = 6 if quick else 25
    report.rule = ("random valid packages (records, enums/flags, aliases, generics, unions, optionals, vectors, arrays, maps, "
                   "imports) x random step values with edge integers/NaN/UTF-8/empty containers and >64KiB streams; "
                   "a case = one (protocol, value sequence, block partition, CopyTo buffer sizes) pushed through generated "
                   "C++ and Python; distinct = distinct (wire type, value) encodings; non-trivial = body of >= 1 byte")
    lean_ok, _ = vlib.check_lean(report, "Props.C01", THEOREMS)
    if not lean_ok:
        report.violation("lean:Props.C01", {"theorem_or_correspondence": "Props.C01 does not build or audit", "log": report.extra.get("lean_build_log", report.extra.get("lean_axiom_log", ""))[-3000:]},
                         "no-failing-input-found")
    with vlib.Scratch("vf-c01-") as sc:
        ybin = vlib.build_yardl(sc)
        drv = vlib.LeanDriver("wiredrv")
        _streams(report, sc, drv, seed, quick)
        gens = [(i, modelgen.Gen(seed * 100003 + i)) for i in range(n_models)]
        labs = codeclab.prepare_labs(sc, ybin, gens, ndjson=False, sanitize=not quick)
        dlab = codeclab.Lab(sc, ybin, 1000, modelgen.Gen(seed * 100003 + 1000), pkg=modelgen.directed_package(),
                            ndjson=False, sanitize=not quick).prepare()
        dlab.directed = True
        labs.append(dlab)
        # arrays of every element encoding (scalars, variable-length integers, flat records, records with enum / flags fields) in every array form
        alab = codeclab.Lab(sc, ybin, 1001, modelgen.Gen(seed * 100003 + 1001), pkg=modelgen.arrays_package(), ndjson=False, sanitize=not quick).prepare()
        alab.directed = True
        labs.append(alab)
        for lab in labs:
            if not lab.ok:
                report.violation(f"{lab.stage}:model", {"seed": seed, "model_index": lab.idx, "error": lab.err,
                                                         "files": _files(lab)}, "")
                continue
            report.count("models")
            for k, v in lab.gen.cov.items():
                report.count("gen." + k, v)
            _exercise(report, lab, drv, 3 if getattr(lab, "directed", False) else n_valsets, seed, quick)
        drv.close()


def _streams(report, sc, lean, seed, quick):
    """Model <-> runtime correspondence of the buffered streams at small capacities."""
    sd = streamcorr.Drivers(sc)
    rng = random.Random(seed * 7919 + 1)

    def bad(kind, lang, detail):
        report.violation(f"stream:{kind}:{lang}", dict(detail, theorem_or_correspondence=f"COS/CIS model vs {lang} runtime ({kind})"), "")
    caps = [10, 11, 16, 64]
    streamcorr.writer_corr(report, sd, lean, rng, caps, 60 if quick else 1500, 8, bad)
    streamcorr.reader_corr(report, sd, lean, rng, caps, 40 if quick else 1000, 8, bad, truncate=False)
    sd.close()


def _files(lab):
    res = {}
    try:
        for root, _, files in os.walk(lab.root):
            for fn in files:
                if fn.endswith(".yml"):
                    res[os.path.relpath(os.path.join(root, fn), lab.root)] = open(os.path.join(root, fn)).read()
    except Exception:
        pass
    return res


def _exercise(report, lab, drv, n_valsets, seed, quick):
    g = lab.gen
    pyjobs, pending = [], []
    for pname, pj in lab.protos.items():
        nstreams = sum(1 for s in pj if s["stream"])
        for k in range(n_valsets):
            big = (k == n_valsets - 1) and nstreams > 0
            if big:
                vals = g.gen_step_vals(pj, stream_len=0)
                # one long stream crossing the 64 KiB staging buffers several times
                si = g.rng.choice([i for i, s in enumerate(pj) if s["stream"]])
                items, total = [], 0
                while total < 150000 and len(items) < 40000:
                    v = g.gen_value(pj[si]["ty"], 3)
                    items.append(v)
                    total += max(4, len(json.dumps(v)) // 6)
                vals[si] = ["stream", items]
                report.count("big_streams")
            else:
                vals = g.gen_step_vals(pj)
            parts = [g.gen_partition(len(v[1])) if v[0] == "stream" else [] for v in vals]
            r = drv.ask({"op": "enc_proto", "proto": pj, "parts": parts, "vals": vals, "schema": lab.schemas[pname]})
            if not r["typed"]:
                raise RuntimeError("generator produced an ill-typed value: " + json.dumps(vals)[:400])
            ref = bytes.fromhex(r["hex"])
            inp = lab.tmp(".ref.bin")
            open(inp, "wb").write(ref)
            bufs = [g.rng.choice([1, 2, 3, 7, 64]) for _ in range(nstreams)]
            ctx = {"proto": pname, "vals": vals, "parts": parts, "bufsizes": bufs, "ref_len": len(ref),
                   "model_index": lab.idx, "seed": seed}
            # C++
            outc = lab.tmp(".cpp.bin")
            rc, err = lab.run_cpp(pname, "b", "b", inp, outc, bufs)
            _judge(report, lab, drv, pj, pname, vals, "cpp", rc, err, outc, ctx, ref)
            if nstreams > 0 and not big:
                # the same copy with an empty batch written before, between and after the batches: an empty batch is no item
                oute = lab.tmp(".cpp-eb.bin")
                rc, err = lab.run_cpp(pname, "b", "b", inp, oute, bufs, empty_batches=True)
                report.count("runs.cpp.empty-batches")
                _judge(report, lab, drv, pj, pname, vals, "cpp", rc, err, oute, dict(ctx, cpp_mode="empty batches interleaved"), ref)
            # Python (batched)
            outp = lab.tmp(".py.bin")
            job = {"proto": pname, "infmt": "b", "outfmt": "b", "in": inp, "out": outp}
            if k % 2 == 1 or big:
                # read everything first, hold the values, then write (lists instead of lazy iterables)
                job.update(mode="hold", steps=[{"name": vlib.to_snake(s["name"]), "stream": s["stream"]} for s in pj])
                ctx = dict(ctx, py_mode="hold")
                if k % 4 == 1 and not big:
                    job.update(empty_batches=True)
                    ctx = dict(ctx, py_mode="hold, streams written in several calls with empty lists between")
                    report.count("runs.py.empty-batches")
            pyjobs.append(job)
            pending.append((pj, pname, vals, outp, ctx, ref))
            if '"arr"' in json.dumps(pj) and (k % 2 == 0 or big):
                # the same values with every multi-dimensional array in Fortran order / as a strided view of a larger buffer
                outl = lab.tmp(".py-layout.bin")
                pyjobs.append({"proto": pname, "infmt": "b", "outfmt": "b", "in": inp, "out": outl, "mode": "hold", "relayout": True,
                               "steps": [{"name": vlib.to_snake(s["name"]), "stream": s["stream"]} for s in pj]})
                pending.append((pj, pname, vals, outl, dict(ctx, py_mode="hold, arrays handed over in Fortran order / as strided views"), ref))
                report.count("runs.py.relayout")
    results = lab.run_py(pyjobs)
    for (pj, pname, vals, outp, ctx, ref), res in zip(pending, results):
        _judge(report, lab, drv, pj, pname, vals, "py", res["rc"], res["exc"], outp, ctx, ref)


def _errclass(err):
    """First line of the error with digits and paths removed (stable identity of a failure class)."""
    import re
    line = (err.strip().splitlines() or [""])[0]
    line = re.sub(r"/[^ :]+", "<path>", line)
    line = re.sub(r"\d+", "N", line)
    return line[:120]


def _judge(report, lab, drv, pj, pname, vals, lang, rc, err, outpath, ctx, ref):
    body_len = ctx["ref_len"] - len(lab.schemas[pname].encode()) - 10
    report.case(distinct_key=(json.dumps(pj), json.dumps(vals)) if body_len > 1 else None,
                sample={"protocol": pj, "values": vals, "lang": lang} if len(json.dumps(vals)) < 600 else None)
    report.count(f"runs.{lang}")
    replay = dict(ctx, lang=lang, files=_files(lab), ref_hex=ref.hex() if len(ref) < 20000 else "(omitted, %d bytes)" % len(ref))
    if rc != 0:
        report.violation(f"{lang}:raised:{_errclass(err)}", dict(replay, rc=rc, stderr=err),
                         f"{lang} translator failed on a valid reference stream")
        return
    r = drv.ask({"op": "dec_proto", "proto": pj, "hex": hexfile(outpath)})
    if "error" in r:
        report.violation(f"{lang}:emitted-bytes-do-not-decode", dict(replay, decode_error=r["error"]), "")
        return
    if r["rest"] != 0:
        report.violation(f"{lang}:trailing-bytes", dict(replay, rest=r["rest"]), "")
        return
    if r["schema"] != lab.schemas[pname]:
        report.violation(f"{lang}:schema-differs", dict(replay, got=r["schema"]), "")
        return
    if modelgen.canon_stepvals(r["vals"]) != modelgen.canon_stepvals(vals):
        report.violation(f"{lang}:values-differ", dict(replay, got=r["vals"]), "")
        return
