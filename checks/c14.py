"""C14 — all target languages follow the same serialization plan.

Proof: Props/C14.lean (the bytes depend on the plan only; the serializer expression every back end's
type -> serializer mapping prints denotes the plan, MATLAB's reversed fixed shapes included; denote is
injective up to layout-irrelevant annotations).
Tie: the serializer expressions are parsed out of *freshly generated* Python binary.py, Python
ndjson.py and MATLAB +binary/*.m for random and directed packages (planparse.py), record classes
expanded, and compared — writer and reader side, every protocol step, hence every record field —
with `Plan.emit` of the resolved type evaluated by the Lean driver. Field order inside the record
serializer classes (write/read argument order) is checked too. C++ (and Python once more) are tied
to the same plan by execution: Lean-encoded streams through the compiled C++ and the Python code.
"""
import json
import os

import codeclab
import modelgen
import planparse
import vlib
from checks import c01

THEOREMS = ["Yardl.C14.bytes_depend_on_plan_only", "Yardl.C14.every_backend_denotes_the_plan", "Yardl.C14.backends_agree",
            "Yardl.C14.written_by_one_read_by_other", "Yardl.C14.matlab_fixed_shape_is_reversed",
            "Yardl.C14.collapsed_optional_is_a_different_plan", "Yardl.C14.expression_difference_is_plan_difference"]


def norm(s):
    return s.replace("_", "").lower()


def run(report, tier, seed):
    quick = tier == "quick"
    report.rule = ("a case = one (package, protocol, step, back end in {python binary, python ndjson, matlab binary, c++ binary}, writer|reader) whose "
                   "printed serializer expression is compared with Plan.emit of the resolved step type, plus executed C++/Python "
                   "round trips of Lean-encoded streams; distinct = distinct (back end, expression); non-trivial = expression with "
                   "at least one constructor around a primitive")
    lean_ok, _ = vlib.check_lean(report, "Props.C14", THEOREMS)
    if not lean_ok:
        report.violation("lean:Props.C14", {"theorem_or_correspondence": "Props.C14 does not build or audit",
                                            "log": (report.extra.get("lean_build_log") or report.extra.get("lean_axiom_log", ""))[-3000:]},
                         "no-failing-input-found")
    with vlib.Scratch("vf-c14-") as sc:
        ybin = vlib.build_yardl(sc)
        lean = vlib.LeanDriver("wiredrv")
        n = 12 if quick else 120
        labs = []
        for i in range(n):
            g = modelgen.Gen(seed * 100129 + i)
            # nothing is compiled or run in the expression leg: the regions the codec labs avoid are in scope here
            g.avoid_bool_sequences = False
            g.avoid_py_array_regions = False
            g.simple_array_elements = False
            g.avoid_alias_inline_union = False
            labs.append(codeclab.Lab(sc, ybin, i, g, ndjson=True, want_cpp=True, compile_cpp=False, want_matlab=True))
        labs.append(codeclab.Lab(sc, ybin, 1000, modelgen.Gen(seed * 100129 + 1000), pkg=modelgen.directed_package(),
                                 ndjson=True, want_cpp=True, compile_cpp=False, want_matlab=True))
        for lab in labs:
            lab.prepare()
            if not lab.ok:
                report.violation(f"{lab.stage}:model", {"seed": seed, "model_index": lab.idx, "error": lab.err, "files": c01._files(lab)}, "")
                continue
            report.count("models.expression-leg")
            expressions(report, lab, lean, seed)
        # execution leg (C++ and Python against enc/dec of the same plan)
        xn = 1 if quick else 6
        gens = [(2000 + i, modelgen.Gen(seed * 100129 + 2000 + i)) for i in range(xn)]
        xlabs = codeclab.prepare_labs(sc, ybin, gens, ndjson=False, sanitize=False)
        # records with interior padding: a whole-value shortcut of one back end would leave the common plan
        xlabs.append(codeclab.Lab(sc, ybin, 3001, modelgen.Gen(seed * 100129 + 3001), pkg=modelgen.padding_package(), ndjson=False).prepare())
        # arrays of every element encoding: shape, rank and element order are part of the plan, whatever layout a language keeps the array in
        xlabs.append(codeclab.Lab(sc, ybin, 3003, modelgen.Gen(seed * 100129 + 3003), pkg=modelgen.arrays_package(), ndjson=False).prepare())
        # one generic record instantiated with type arguments that share their outermost constructor (float* / double*, int? / string?, ...)
        xlabs.append(codeclab.Lab(sc, ybin, 3004, modelgen.Gen(seed * 100129 + 3004), pkg=modelgen.instantiations_package(), ndjson=False).prepare())
        if not quick:
            xlabs.append(codeclab.Lab(sc, ybin, 3000, modelgen.Gen(seed * 100129 + 3000), pkg=modelgen.directed_package(), ndjson=False).prepare())
        for lab in xlabs:
            if not lab.ok:
                report.violation(f"{lab.stage}:model", {"seed": seed, "model_index": lab.idx, "error": lab.err, "files": c01._files(lab)}, "")
                continue
            report.count("models.execution-leg")
            c01._exercise(report, lab, lean, 3 if quick else 8, seed, quick)
        # NDJSON is a serialization plan too: the lines C++ and Python write for the same values are the lines of the JSON model
        # (which fields are left out when null is part of it), and each reads the other's. Fields that can be null in every way a
        # type can say so.
        from checks import c02
        nl = codeclab.Lab(sc, ybin, 3002, modelgen.Gen(seed * 100129 + 3002, json_safe=True, cpp_json_safe=True), pkg=modelgen.nullable_package(), ndjson=True).prepare()
        if not nl.ok:
            report.violation(f"{nl.stage}:model", {"seed": seed, "model_index": nl.idx, "error": nl.err, "files": c01._files(nl)}, "")
        else:
            report.count("models.ndjson-leg")
            c02.exercise(report, nl, lean, 3 if quick else 10, seed, "C14")
        lean.close()


def expressions(report, lab, lean, seed):
    ns = lab.pymod
    mat_ns = None
    for d in os.listdir(lab.out_matlab):
        if d.startswith("+") and norm(d[1:]) == norm(lab.pkg.namespace):
            mat_ns = d[1:]
    backends = [("py", "python binary", planparse.PyPackage(lab.out_py, "binary", ns)),
                ("pyndjson", "python ndjson", planparse.PyPackage(lab.out_py, "ndjson", ns)),
                ("matlab", "matlab binary", planparse.MatPackage(lab.out_matlab))]
    try:
        backends.append(("cpp", "c++ binary", planparse.CppPackage(lab.out_cpp)))
    except planparse.ParseError as e:
        report.violation("cpp:unparsed-generated-code", {"seed": seed, "model_index": lab.idx, "theorem_or_correspondence": "serializer expressions of generated code vs Plan.emit",
                                                         "error": str(e), "files": c01._files(lab)}, "no-failing-input-found")
    for pname, pj in lab.protos.items():
        for bk, label, pkg in backends:
            replay = {"seed": seed, "model_index": lab.idx, "protocol": pname, "backend": label, "files": c01._files(lab)}
            ref = lean.ask({"op": "emit", "backend": bk, "proto": pj})
            if "error" in ref:
                report.violation("model:emit", dict(replay, error=ref["error"]), "no-failing-input-found")
                continue
            try:
                if bk == "matlab":
                    if mat_ns is None:
                        raise planparse.ParseError("no MATLAB namespace directory for " + lab.pkg.namespace)
                    cls = _find_matlab_proto(lab.out_matlab, mat_ns, pname)
                    got = pkg.steps(mat_ns, cls)
                elif bk == "cpp":
                    cands = [(n_, p_) for (n_, p_, r_) in pkg.methods if r_ == "Writer" and norm(p_) == norm(pname) and norm(n_) == norm(lab.pkg.namespace)]
                    if len(cands) != 1:
                        raise planparse.ParseError(f"step methods of protocol {pname}: {len(cands)} candidate classes")
                    got = pkg.steps(*cands[0])
                else:
                    cls = _find_py_proto(pkg, ns, pname, "Binary" if bk == "py" else "NDJson")
                    got = pkg.steps(ns, cls)
            except planparse.ParseError as e:
                report.violation(f"{bk}:unparsed-generated-code", dict(replay, theorem_or_correspondence="serializer expressions of generated code vs Plan.emit",
                                                                        error=str(e)), "no-failing-input-found")
                continue
            for role in ("writer", "reader"):
                steps = got[role]
                if len(steps) != len(ref["steps"]):
                    report.violation(f"{bk}:step-count", dict(replay, role=role, expected=[s["name"] for s in ref["steps"]], got=[s[0] for s in steps]),
                                     "the generated class does not serialize one value per protocol step")
                    continue
                for want, (gname, gse, gstream) in zip(ref["steps"], steps):
                    wse = want["se"]
                    if bk == "pyndjson":
                        wse = _size_as_uint64_in_enum(wse)
                    report.case(distinct_key=(bk, json.dumps(gse)) if gse[0] != "prim" else None,
                                sample={"backend": label, "role": role, "step": want["name"], "expression": gse} if report.evaluations % 97 == 0 else None)
                    report.count(f"expr.{bk}.{role}")
                    _count_shapes(report, gse)
                    if not want["denotes_plan"]:
                        report.violation("model:denote-emit", dict(replay, step=want["name"]), "no-failing-input-found")
                    if norm(gname) != norm(want["name"]):
                        report.violation(f"{bk}:step-order", dict(replay, role=role, expected=want["name"], got=gname),
                                         "steps are serialized in an order other than the protocol's")
                    elif gstream != want["stream"]:
                        report.violation(f"{bk}:stream-flag", dict(replay, role=role, step=want["name"], expected_stream=want["stream"]),
                                         "a stream step is serialized as a single value or vice versa")
                    elif gse != wse:
                        wit = _witness(lean, lab, bk, pj, want, gse)
                        report.violation(f"{bk}:expression-deviates-from-plan",
                                         dict(replay, role=role, step=want["name"], expected_expression=wse, generated_expression=gse,
                                              first_difference=_first_diff(wse, gse), plan=want["plan"], **wit),
                                         "the serializer composition printed for this step is not the plan of its type"
                                         + ("" if wit.get("witness_value") is not None else " no-failing-input-found"))
            if bk == "py":
                for mod, cls, kind, seen, names in pkg.field_orders or []:
                    ok = seen == names if kind == "write" else seen == [(n_, i) for i, n_ in enumerate(names)]
                    report.count("record-field-order.py")
                    if not ok:
                        report.violation("py:record-field-order", dict(replay, cls=cls, method=kind, serializers=names, used=seen),
                                         "a record serializer passes fields in an order other than its serializer list")
            if bk == "cpp":
                for fn_, used, declared in pkg.field_orders:
                    report.count("record-field-order.cpp")
                    if used != declared:
                        report.violation("cpp:record-field-order", dict(replay, function=fn_, serialized=used, declared=declared),
                                         "a C++ record serializer passes the fields in an order other than the struct's")
            if bk == "matlab":
                for ns_, cls, wn, rn, nf in pkg.field_orders:
                    report.count("record-field-order.matlab")
                    if wn is None or rn is None or len(wn) != nf or [int(i) for _, i in rn] != list(range(1, nf + 1)) or [a for a, _ in rn] != wn:
                        report.violation("matlab:record-field-order", dict(replay, cls=cls, write=wn, read=rn, fields=nf),
                                         "a MATLAB record serializer reads/writes fields in an order other than its serializer list")
                for role in ("writer", "reader"):
                    uses = got[role + "_uses"]
                    if len(uses) != len(got[role]) or any(a != b for a, b in uses):
                        report.violation("matlab:step-uses-other-serializer", dict(replay, role=role, uses=uses),
                                         "a MATLAB step method does not use the serializer built for that step")


def _witness(lean, lab, bk, pj, want, gse):
    """a value of the step's type whose bytes under the plan differ from its bytes under the plan the generated expression denotes"""
    ty = next(s["ty"] for s in pj if s["name"] == want["name"])
    for _ in range(200):
        v = lab.gen.gen_value(ty, 3)
        a = lean.ask({"op": "enc", "ty": ty, "val": v})
        b = lean.ask({"op": "denote", "backend": bk, "se": gse, "val": v})
        if "error" in a or "fatal" in b or "error" in b:
            continue
        if b.get("plan") is None:
            return {"witness_value": v, "bytes_under_plan": a.get("hex"), "bytes_under_generated_expression": None,
                    "note": "the generated expression is not a serializer of any value type"}
        if a.get("hex") != b.get("hex"):
            return {"witness_value": v, "bytes_under_plan": a.get("hex"), "bytes_under_generated_expression": b.get("hex"),
                    "plan_of_generated_expression": b.get("plan")}
    return {"witness_value": None}


def _find_py_proto(pkg, mod, pname, prefix):
    for cname in pkg.module(mod):
        if cname.startswith(prefix) and cname.endswith("Writer") and norm(cname[len(prefix):-6]) == norm(pname):
            return cname[len(prefix):-6]
    raise planparse.ParseError(f"no {prefix}<{pname}>Writer class")


def _find_matlab_proto(root, ns, pname):
    d = os.path.join(root, "+" + ns, "+binary")
    for f in os.listdir(d):
        if f.endswith("Writer.m") and norm(f[:-8]) == norm(pname):
            return f[:-8]
    raise planparse.ParseError(f"no MATLAB writer for {pname}")


def _size_as_uint64_in_enum(se):
    if se[0] == "enum":
        b = se[1]
        return ["enum", ["prim", "uint64"] if b == ["prim", "size"] else b, se[2]]
    return [(_size_as_uint64_in_enum(x) if isinstance(x, list) and x and isinstance(x[0], str) else
             ([_size_as_uint64_in_enum(y) if isinstance(y, list) and y and isinstance(y[0], str) else y for y in x] if isinstance(x, list) else x))
            for x in se]


def _first_diff(a, b, path="$"):
    if isinstance(a, list) and isinstance(b, list):
        if len(a) != len(b):
            return f"{path}: {json.dumps(a)[:200]} vs {json.dumps(b)[:200]}"
        for i, (x, y) in enumerate(zip(a, b)):
            d = _first_diff(x, y, f"{path}[{i}]")
            if d:
                return d
        return None
    return None if a == b else f"{path}: expected {json.dumps(a)}, generated {json.dumps(b)}"


def _count_shapes(report, se):
    if isinstance(se, list) and se and isinstance(se[0], str):
        report.count("shape." + se[0])
        for x in se[1:]:
            if isinstance(x, list):
                if x and isinstance(x[0], str):
                    _count_shapes(report, x)
                else:
                    for y in x:
                        _count_shapes(report, y)
