"""C03 — streams are portable across target languages and formats.

Proof: Props/C03.lean (both writers refine the same byte-level specification for every capacity and
operation sequence; Python offset invariant; union index encodings agree below 128 cases).
Correspondence: every ordered pair of (language, format) among C++/Python x binary/NDJSON: a stream
produced by the generated code of one side (from a Lean-encoded reference stream) is fed to the generated
reader of the other side and copied to binary, which the Lean reference decoder must decode to the original
values. Pairs: cpp-bin->py, py-bin->cpp, cpp-ndjson->py, py-ndjson->cpp, plus format conversions inside each
language (bin->ndjson->bin).
"""
import json
import os

import codeclab
import jsonlab
import modelgen
import vlib
from checks.c01 import _files, _errclass

THEOREMS = ["Yardl.C03.cpp_and_python_writers_agree", "Yardl.C03.python_offset_stays_in_buffer",
            "Yardl.C03.unchecked_byte_can_overflow", "Yardl.C03.union_index_encodings_agree_iff",
            "Yardl.C03.streams_cross_languages"]


def run(report, tier, seed):
    quick = tier == "quick"
    report.rule = ("a case = one value sequence pushed through one ordered pair (producer language/format -> consumer language/format); "
                   "distinct = distinct (wire type, values, pair); non-trivial = at least one value")
    lean_ok, _ = vlib.check_lean(report, "Props.C03", THEOREMS)
    if not lean_ok:
        report.violation("lean:Props.C03", {"theorem_or_correspondence": "Props.C03 does not build or audit",
                                            "log": (report.extra.get("lean_build_log") or report.extra.get("lean_axiom_log", ""))[-3000:]},
                         "no-failing-input-found")
    with vlib.Scratch("vf-c03-") as sc:
        ybin = vlib.build_yardl(sc)
        lean = vlib.LeanDriver("wiredrv")
        n = 3 if quick else 30
        gens = [(i, modelgen.Gen(seed * 100129 + i, json_safe=True, cpp_json_safe=True)) for i in range(n)]
        labs = codeclab.prepare_labs(sc, ybin, gens, ndjson=True, sanitize=False)
        dpkg = modelgen.directed_package()
        # the C++ NDJSON legs cannot format dates with the stand-in date.h: drop those steps from the directed package here
        for d in dpkg.defs:
            if d["kind"] == "protocol":
                d["steps"] = [s for s in d["steps"] if not any(x in json.dumps(s[1]) for x in ('"date"', '"time"', '"datetime"'))]
        dlab = codeclab.Lab(sc, ybin, 1000, modelgen.Gen(seed * 100129 + 1000, json_safe=True, cpp_json_safe=True), pkg=dpkg, ndjson=True).prepare()
        # unions written without a tag in NDJSON: the producer and the consumer are different languages, the case has to be recovered from the JSON type
        # alone on the other side - for both declaration orders of every pair of JSON kinds
        ulab = codeclab.Lab(sc, ybin, 1003, modelgen.Gen(seed * 100129 + 1003, json_safe=True, cpp_json_safe=True), pkg=modelgen.untagged_unions_package("Xunt", small=True),
                            ndjson=True).prepare()
        if ulab.ok:
            ulab.min_stream_items = 4
            report.count("models.untagged-unions")
            _pairs(report, ulab, lean, 2 if quick else 8, seed, only=("cpp-ndjson->py-bin", "py-ndjson->cpp-bin") + (() if quick else ("cpp-bin->py-ndjson->cpp-bin", "py-bin->cpp-ndjson->py-bin")))
        else:
            report.violation(f"{ulab.stage}:model", {"seed": seed, "model": "untagged unions", "error": ulab.err, "files": _files(ulab)}, "")
        for lab in labs + [dlab]:
            if not lab.ok:
                report.violation(f"{lab.stage}:model", {"seed": seed, "model_index": lab.idx, "error": lab.err, "files": _files(lab)}, "")
                continue
            report.count("models")
            _pairs(report, lab, lean, 3 if quick else 12, seed)
        _long_streams(report, sc, ybin, lean, seed, quick)
        _some_none_witness(report, sc, ybin, lean)
        lean.close()


def _some_none_witness(report, sc, ybin, lean):
    """known finding: some(none) of a nested optional does not survive a copy through Python"""
    pkg = modelgen.Package("Kn")
    pkg.defs.append({"kind": "alias", "name": "MaybeInt", "tparams": [], "type": ("opt", ("prim", "int32"))})
    pkg.defs.append({"kind": "protocol", "name": "P", "steps": [("v", ("opt", ("named", "MaybeInt", [])), False)]})
    lab = codeclab.Lab(sc, ybin, 2000, modelgen.Gen(1), pkg=pkg, want_cpp=False).prepare()
    if not lab.ok:
        return
    pj = lab.protos["P"]
    vals = [["single", ["some", ["none"]]]]
    ref = bytes.fromhex(lean.ask({"op": "enc_proto", "proto": pj, "parts": [[]], "vals": vals, "schema": lab.schemas["P"]})["hex"])
    inp, out = lab.tmp(".bin"), lab.tmp(".out")
    open(inp, "wb").write(ref)
    r = lab.run_py([{"proto": "P", "infmt": "b", "outfmt": "b", "in": inp, "out": out}])[0]
    report.case(distinct_key=("witness", "some-none"))
    got = open(out, "rb").read() if os.path.exists(out) else b""
    if r["rc"] != 0 or got != ref:
        report.violation("py:some-none-collapses", {"model": "MaybeInt: int?; P.v: MaybeInt?", "value": "some(none)", "written_by_reference": ref[-2:].hex(),
                                                    "rewritten_by_python": got[-2:].hex(), "rc": r["rc"]},
                         "copying through Python changes the value")


def _long_streams(report, sc, ybin, lean, seed, quick):
    """streams much longer than the 64 KiB staging buffers of both runtimes, made of multi-byte variable-length integers so that values straddle
    every buffer boundary: written by one language, copied by the other (binary and through NDJSON)"""
    import random
    P = lambda n: ("prim", n)
    pkg = modelgen.Package("Lng")
    pkg.defs.append({"kind": "record", "name": "Ev", "tparams": [], "fields": [("t", P("int64")), ("id", P("uint64")), ("v", P("int32")), ("name", P("string"))]})
    pkg.defs.append({"kind": "protocol", "name": "PLong", "steps": [("hdr", P("string"), False), ("events", ("named", "Ev", []), True), ("counts", P("uint64"), True), ("tail", P("int32"), False)]})
    lab = codeclab.Lab(sc, ybin, 3000, modelgen.Gen(seed * 100129 + 3000, json_safe=True, cpp_json_safe=True), pkg=pkg, ndjson=True).prepare()
    if not lab.ok:
        report.violation(f"{lab.stage}:model", {"seed": seed, "model_index": lab.idx, "error": lab.err, "files": _files(lab)}, "")
        return
    r = random.Random(seed * 77 + 3)
    for shift in ((0, 1) if quick else (0, 1, 2, 3, 5, 8)):
        n = 9000 if quick else 30000
        events = [["rec", [["i", 1700000000000000000 + r.randrange(10**12) * (1 if i % 7 else -1)], ["i", 2**63 + r.randrange(2**62)], ["i", r.randrange(-2**31, 2**31)],
                           ["s", ("e%d" % (i % 97)).encode().hex()]]] for i in range(n)]
        counts = [["i", r.choice([2**64 - 1, 2**56 + i, 2**35 + i, 300 + i])] for i in range(n // 2)]
        vals = [["single", ["s", ("x" * shift).encode().hex()]], ["stream", events], ["stream", counts], ["single", ["i", 7]]]
        _pairs(report, lab, lean, 1, seed, fixed_vals=vals, only=("cpp-bin->py-bin", "py-bin->cpp-bin") + (() if quick and shift else ("py-bin->cpp-ndjson->py-bin",)))
        report.count("long-streams")


def _pairs(report, lab, lean, n_sets, seed, fixed_vals=None, only=None):
    g = lab.gen
    for pname, pj in lab.protos.items():
        nstreams = sum(1 for s in pj if s["stream"])
        for k in range(n_sets):
            vals = fixed_vals if fixed_vals is not None else g.gen_step_vals(pj, stream_len=getattr(lab, "min_stream_items", None))
            parts = [g.gen_partition(len(v[1])) if v[0] == "stream" else [] for v in vals]
            ref = bytes.fromhex(lean.ask({"op": "enc_proto", "proto": pj, "parts": parts, "vals": vals, "schema": lab.schemas[pname]})["hex"])
            inp = lab.tmp(".ref.bin")
            open(inp, "wb").write(ref)
            bufs = [g.rng.choice([1, 2, 5]) for _ in range(nstreams)]
            # every other value set: the writers are handed the streams in several batches with empty batches before, between and
            # after them (an empty batch is no item: the stream another language reads must be the same)
            eb = k % 2 == 1 and nstreams > 0
            ctx = {"proto": pname, "vals": vals if len(json.dumps(vals)) < 5000 else "(large)", "model_index": lab.idx, "seed": seed, "bufsizes": bufs,
                   "empty_batches_interleaved": eb}
            if eb:
                report.count("value-sets.empty-batches-interleaved")

            def cpp(infmt, outfmt, src, eb=eb):
                out = lab.tmp(".cpp." + ("bin" if outfmt == "b" else "ndjson"))
                rc, err = lab.run_cpp(pname, infmt, outfmt, src, out, bufs, empty_batches=eb)
                return rc, err, out

            def py(infmt, outfmt, src, eb=eb, pj=pj):
                out = lab.tmp(".py." + ("bin" if outfmt == "b" else "ndjson"))
                job = {"proto": pname, "infmt": infmt, "outfmt": outfmt, "in": src, "out": out}
                if eb:
                    job.update(mode="hold", empty_batches=True, steps=[{"name": vlib.to_snake(s["name"]), "stream": s["stream"]} for s in pj])
                r = lab.run_py([job])[0]
                return r["rc"], r["exc"], out
            chains = {
                "cpp-bin->py-bin": [(cpp, "b", "b"), (py, "b", "b")],
                "py-bin->cpp-bin": [(py, "b", "b"), (cpp, "b", "b")],
                "cpp-ndjson->py-bin": [(cpp, "b", "j"), (py, "j", "b")],
                "py-ndjson->cpp-bin": [(py, "b", "j"), (cpp, "j", "b")],
                "cpp-bin->py-ndjson->cpp-bin": [(cpp, "b", "b"), (py, "b", "j"), (cpp, "j", "b")],
                "py-bin->cpp-ndjson->py-bin": [(py, "b", "b"), (cpp, "b", "j"), (py, "j", "b")],
            }
            for name, chain in chains.items():
                if only is not None and name not in only:
                    continue
                src = inp
                failed = None
                for fn, a, b in chain:
                    rc, err, out = fn(a, b, src)
                    if rc != 0:
                        failed = (fn.__name__, a, b, rc, err)
                        break
                    src = out
                report.case(distinct_key=(json.dumps(pj), json.dumps(vals), name),
                            sample={"protocol": pname, "pair": name} if report.evaluations % 80 == 0 else None)
                report.count(f"pair.{name}")
                replay = dict(ctx, pair=name, files=_files(lab))
                if failed:
                    report.violation(f"{name}:{failed[0]}-{failed[1]}{failed[2]}-raised:{_errclass(failed[4])}", dict(replay, stage=failed[:4], stderr=failed[4]),
                                     "a stream produced by one generated code base is not accepted by the other")
                    continue
                r = lean.ask({"op": "dec_proto", "proto": pj, "hex": open(src, "rb").read().hex()})
                if "error" in r or r.get("rest", 0) != 0:
                    report.violation(f"{name}:bytes-do-not-decode", dict(replay, decode=r.get("error", "trailing")), "")
                elif modelgen.canon_stepvals(r["vals"]) != modelgen.canon_stepvals(vals):
                    report.violation(f"{name}:values-differ", dict(replay, got=r["vals"] if len(json.dumps(r["vals"])) < 4000 else "(large)"),
                                     "copying between languages/formats changed a value")
