"""C09 — the language rules are enforced wherever a violation occurs.

Proof: Props/C09.lean — (a) in the model every rule stated on type nodes is checked on *all* sub-terms
(`violation_anywhere_rejects`, any nesting depth, any rule); (b) over facts regenerated from the
current source: every field of every dsl node struct that holds child nodes is walked by
`VisitChildren` (what "reaches every nested node" means for the passes built on the visitor), the
validation passes of `Validate` are all still in the pipeline, and the errors of imported packages and
previous versions are returned (from C11).
Tie: one rule violation is injected into otherwise valid random packages — every documented rule x
every kind of position (field, step, stream items, alias target, generic argument, nested container,
union case) x every placement (main package, second file, imported package, previous version) — and
`yardl validate` must exit non-zero with an error that names the offending file.
"""
import copy
import os
import random
import re

import gen_tables
import modelgen
import vlib
from checks import c09_types

THEOREMS = ["Yardl.C09.violation_anywhere_rejects", "Yardl.C09.accepted_means_every_node_ok", "Yardl.C09.visitor_reaches_every_child",
            "Yardl.C09.visitor_covers_type_nodes", "Yardl.C09.all_rule_passes_in_pipeline", "Yardl.C09.import_and_version_errors_returned", "Yardl.C09.reference_cycle_is_rejected", "Yardl.C09.type_rules_enforced_anywhere", "Yardl.C09.accepted_enum_is_well_formed", "Yardl.C09.null_must_be_first",
            "Yardl.C09.null_alone_is_rejected", "Yardl.C09.unions_do_not_nest", "Yardl.C09.map_key_must_be_scalar", "Yardl.C09.array_dimension_rules"]

P = lambda n: ("prim", n)

# violations expressible at any type position: (rule, raw YAML, expected words in the error)
TYPE_VIOLATIONS = [
    ("unknown-type", '"NoSuchType"', None),
    ("unknown-generic", '"NoSuchGeneric<int>"', None),
    # a name that is only the type parameter of *another* generic definition (ZzBox<T>, ZzOther<ZzQ>, imported ZzImpOther<ZzImpT>) is not a type
    ("unknown-type-is-foreign-type-parameter", '"T"', None),
    ("unknown-type-is-foreign-type-parameter-2", '"ZzQ"', None),
    ("unknown-type-is-imported-type-parameter", '"ZzImpT"', None),
    ("unknown-type-is-foreign-type-parameter-in-generic-argument", '"ZzBox<ZzQ>"', None),
    ("generic-arity-on-primitive", '"int<float>"', None),
    ("union-null-only", "[null]", None),
    ("union-null-not-first", "[int, null]", None),
    ("union-nested", "[[int, float], string]", None),
    ("union-duplicate-cases", "[int, int32]", None),
    ("union-duplicate-tags", "!union {a: int, a: float}", None),
    ("union-bad-tag-case", "!union {BadTag: int, other: float}", None),
    ("stream-outside-step", "!stream {items: int}", None),
    ("map-key-not-primitive", "!map {keys: !vector {items: int}, values: int}", None),
    ("map-key-optional", '!map {keys: "int?", values: int}', None),
    # named key types: what they refer to is only known after type resolution
    ("map-key-record", '!map {keys: "ZzBox<int>", values: int}', None),
    ("map-key-enum", '!map {keys: ZzKeyEnum, values: int}', None),
    ("map-key-alias-of-vector", '!map {keys: ZzKeyVec, values: int}', None),
    ("map-key-alias-of-optional", '!map {keys: ZzKeyOpt, values: int}', None),
    ("array-dimension-lengths-inconsistent", "!array {items: int, dimensions: [{name: x, length: 3}, {name: y}]}", None),
    ("array-dimension-duplicate-name", "!array {items: int, dimensions: [x, x]}", None),
    ("array-dimension-bad-name", '!array {items: int, dimensions: ["9x"]}', None),
]

WRAPPERS = [
    ("direct", lambda t: t),
    ("optional", lambda t: ("opt", t)),
    ("vector", lambda t: ("vec", t, None)),
    ("fixed-vector", lambda t: ("vec", t, 3)),
    ("array", lambda t: ("arr", t, ("rank", 2, None))),
    ("map-value", lambda t: ("map", P("string"), t)),
    ("union-case", lambda t: ("union", False, [("ua", P("int32")), ("ub", t)])),
    ("generic-argument", lambda t: ("named", "ZzBox", [t])),
    ("nested", lambda t: ("vec", ("map", P("string"), ("opt", t)), None)),
]

SITES = ["field", "step", "stream-items", "alias", "generic-field", "generic-alias"]
PLACEMENTS = ["main", "second-file", "import", "previous-version"]


def run(report, tier, seed):
    quick = tier == "quick"
    report.rule = ("a case = one (base package, rule violation, position wrapper, definition site, placement) judged by `yardl validate`; "
                   "distinct = distinct (rule, wrapper, site, placement, base); non-trivial = all")
    with vlib.Scratch("vf-c09g-") as gsc:
        gen_tables.generate(gsc)
    lean_ok, _ = vlib.check_lean(report, "Props.C09", THEOREMS)
    if not lean_ok:
        report.violation("lean:Props.C09", {"theorem_or_correspondence": "Props.C09 does not build or audit (visitor coverage / pass list of the current source?)",
                                            "log": (report.extra.get("lean_build_log") or report.extra.get("lean_axiom_log", ""))[-3000:]},
                         "no-failing-input-found")
    with vlib.Scratch("vf-c09-") as sc:
        ybin = vlib.build_yardl(sc)
        rr = random.Random(seed * 7331 + 9)
        gen_lean = vlib.LeanDriver("wiredrv")
        c09_types.type_rules(report, ybin, sc, gen_lean, random.Random(seed * 911 + 9), 400 if quick else 6000, seed)
        c09_types.enum_rules(report, ybin, sc, gen_lean, random.Random(seed * 677 + 9), 300 if quick else 4000, seed)
        gen_lean.close()
        n_bases = 2 if quick else 8
        per_base = 100 if quick else 300
        for b in range(n_bases):
            g = modelgen.Gen(seed * 100183 + b)
            g.avoid_bool_sequences = False
            pkg = g.gen_package(n_imports=1)
            root = sc.path(f"b{b}")
            ok, err, _ = _validate(ybin, root, "base", pkg, None)
            if not ok:
                report.violation("generate:model", {"seed": seed, "base": b, "error": err}, "")
                continue
            report.count("bases")
            combos = [(v, w, s, p) for v in TYPE_VIOLATIONS for w in WRAPPERS for s in SITES for p in PLACEMENTS]
            rr.shuffle(combos)
            # every rule, wrapper, site and placement at least once, then random combinations
            must = []
            for v in TYPE_VIOLATIONS:
                must.append((v, rr.choice(WRAPPERS), rr.choice(SITES), rr.choice(PLACEMENTS)))
            for w in WRAPPERS:
                for p in PLACEMENTS:
                    must.append((rr.choice(TYPE_VIOLATIONS), w, rr.choice(SITES), p))
            for v in TYPE_VIOLATIONS:
                if v[0].startswith("unknown"):
                    for s in ("generic-field", "generic-alias"):
                        must.append((v, WRAPPERS[0] if rr.random() < 0.6 else rr.choice(WRAPPERS), s, rr.choice(PLACEMENTS)))
            for (v, w, s, pl) in (must + combos)[:per_base]:
                _type_case(report, ybin, sc, seed, b, pkg, v, w, s, pl, rr)
            for dv in DEF_VIOLATIONS:
                for pl in PLACEMENTS + ["main-reversed", "main-with-protocol-only-import"]:
                    _def_case(report, ybin, sc, seed, b, pkg, dv, pl, rr)
            # a type written in a pattern of a computed field's !switch is a type position like any other
            for (rule, bad) in SWITCH_PATTERN_TYPES:
                for form in ("type-pattern", "declaration-pattern"):
                    for target in ("union", "optional"):
                        for pl in (PLACEMENTS if not quick or b == 0 else PLACEMENTS[:1]):
                            _switch_pattern_case(report, ybin, sc, seed, b, pkg, rule, bad, form, target, pl, rr)


def _site_defs(kind, bad):
    """definitions that carry the (wrapped) violating type at the requested site"""
    box = {"kind": "record", "name": "ZzBox", "tparams": ["T"], "fields": [("v", ("tparam", "T"))]}
    other = {"kind": "record", "name": "ZzOther", "tparams": ["ZzQ"], "fields": [("q", ("tparam", "ZzQ"))]}
    keydefs = [{"kind": "enum", "name": "ZzKeyEnum", "flags": False, "base": None, "auto": True, "values": [("a", 0), ("b", 1)]},
               {"kind": "alias", "name": "ZzKeyVec", "tparams": [], "type": ("vec", P("string"), None)},
               {"kind": "alias", "name": "ZzKeyOpt", "tparams": [], "type": ("opt", P("int32"))}]
    if kind == "generic-field":
        # a generic definition that is never instantiated: its own parameter is U, nothing else is in scope
        return [box, other] + keydefs + [{"kind": "record", "name": "ZzHost", "tparams": ["U"], "fields": [("u", ("tparam", "U")), ("bad", bad)]}]
    if kind == "generic-alias":
        return [box, other] + keydefs + [{"kind": "record", "name": "ZzUsesU", "tparams": ["U"], "fields": [("u", ("tparam", "U"))]},
                {"kind": "alias", "name": "ZzHost", "tparams": ["U"], "type": ("union", False, [("mine", ("named", "ZzUsesU", [("tparam", "U")])), ("bad", bad)])}]
    box = [box, other] + keydefs
    if kind == "field":
        return box + [{"kind": "record", "name": "ZzHost", "tparams": [], "fields": [("ok", P("int32")), ("bad", bad)]}]
    if kind == "alias":
        return box + [{"kind": "alias", "name": "ZzHost", "tparams": [], "type": bad}]
    if kind == "step":
        return box + [{"kind": "protocol", "name": "ZzHost", "steps": [("first", P("int32"), False), ("bad", bad, False)]}]
    return box + [{"kind": "protocol", "name": "ZzHost", "steps": [("first", P("int32"), False), ("bad", bad, True)]}]


def _place(pkg, defs, placement, rr):
    """-> (package to validate, previous version package or None, name of the package dir that holds the violation, file name)"""
    p = copy.deepcopy(pkg)
    if placement == "main":
        p.defs = p.defs + defs
        return p, None, "pkg_" + p.namespace, "model.yml"
    if placement == "main-reversed":
        # the same definitions in the opposite order, ahead of everything else: a verdict must not depend on which definition is met first
        p.defs = list(reversed(defs)) + p.defs
        return p, None, "pkg_" + p.namespace, "model.yml"
    if placement == "main-with-protocol-only-import":
        # the first namespace the passes meet has no type definitions at all
        only = modelgen.Package("ZzOnlyProtocols")
        only.defs = [{"kind": "protocol", "name": "ZzHandshake", "steps": [("hello", P("string"), False)]}]
        p.imports = [only] + list(p.imports)
        p.defs = p.defs + defs
        return p, None, "pkg_" + p.namespace, "model.yml"
    if placement == "second-file":
        p.defs = p.defs + defs
        names = [d["name"] for d in p.defs]
        mine = [d["name"] for d in defs]
        p.files = [[n for n in names if n not in mine], mine]
        return p, None, "pkg_" + p.namespace, "m1.yml"
    if placement == "import":
        imp = p.imports[0]
        imp.defs = imp.defs + defs
        return p, None, "pkg_" + imp.namespace, "model.yml"
    old = copy.deepcopy(pkg)
    old.defs = old.defs + defs
    return p, old, "old/pkg_" + old.namespace, "model.yml"


def _validate(ybin, root, name, pkg, old):
    d = os.path.join(root, name)
    versions = None
    if old is not None:
        od = os.path.join(d, "old")
        vlib.write_package(od, old, random.Random(5), cpp=False, python=False, js=False)
        versions = [("v0", "../old/pkg_" + old.namespace)]
    pd = vlib.write_package(d, pkg, random.Random(5), cpp=False, python=False, js=False, versions=versions)
    rc, out, err = vlib.yardl(ybin, pd, "validate")
    return rc == 0, (out + err), d


def _judge(report, ok, text, d, where_dir, where_file, key, replay):
    if ok:
        report.violation(f"violation-accepted:{key}", dict(replay, output=text[-1500:], files=_files(d)),
                         "a package with a rule violation is accepted")
        return
    if "panic" in text or "goroutine " in text:
        report.violation(f"panic-instead-of-diagnostic:{key}", dict(replay, output=text[-2500:], files=_files(d)), "")
        return
    # the error must name the offending file
    pat = re.compile(re.escape(where_dir) + r"[/\\]" + re.escape(where_file))
    if not pat.search(text):
        report.violation(f"error-does-not-name-the-file:{key}", dict(replay, expected_file=f"{where_dir}/{where_file}", output=text[-1500:], files=_files(d)),
                         "the violation is rejected but no error names the file it is in")


def _files(d):
    out = {}
    for dp, _, fns in os.walk(d):
        for fn in fns:
            if fn.endswith(".yml"):
                p = os.path.join(dp, fn)
                out[os.path.relpath(p, d)] = open(p).read()[:5000]
    return out


def _type_case(report, ybin, sc, seed, b, pkg, v, w, site, placement, rr):
    rule, raw, _ = v
    wname, wrap = w
    if rule == "stream-outside-step" and wname == "direct" and site in ("step", "stream-items"):
        return   # a stream directly at a step is the legal place
    bad = wrap(("raw", raw))
    defs = _site_defs(site, bad)
    if wname == "union-case" and site == "generic-alias":
        return   # unions do not nest: that would be a second violation
    pkg = copy.deepcopy(pkg)
    pkg.imports[0].defs = pkg.imports[0].defs + [{"kind": "record", "name": "ZzImpOther", "tparams": ["ZzImpT"], "fields": [("q", ("tparam", "ZzImpT"))]}]
    p, old, wdir, wfile = _place(pkg, defs, placement, rr)
    name = f"t-{rule}-{wname}-{site}-{placement}"
    ok, text, d = _validate(ybin, sc.path(f"b{b}"), name, p, old)
    report.case(distinct_key=(b, rule, wname, site, placement))
    for k in (f"rule.{rule}", f"wrapper.{wname}", f"site.{site}", f"placement.{placement}"):
        report.count(k)
    _judge(report, ok, text, d, wdir, wfile, f"{rule}:{wname}:{site}:{placement}", {"seed": seed, "base": b, "rule": rule, "wrapper": wname, "site": site, "placement": placement})


SWITCH_PATTERN_TYPES = [("unknown-type", "NoSuchType"), ("unknown-type-in-vector", "NoSuchType*"), ("unknown-generic", "NoSuchGeneric<int>"),
                        ("unknown-type-in-generic-argument", "ZzBox<NoSuchType>"), ("foreign-type-parameter", "ZzQ"), ("generic-arity-on-primitive", "int<float>"),
                        ("generic-without-arguments-count", "ZzBox<int, int>")]


def _switch_pattern_case(report, ybin, sc, seed, b, pkg, rule, bad, form, target, placement, rr):
    box = {"kind": "record", "name": "ZzBox", "tparams": ["T"], "fields": [("v", ("tparam", "T"))]}
    other = {"kind": "record", "name": "ZzOther", "tparams": ["ZzQ"], "fields": [("q", ("tparam", "ZzQ"))]}
    pat = f"{bad}: 2" if form == "type-pattern" else f"{bad} zzv: 2"
    if target == "union":
        field = ("u", ("union", False, [(None, P("int32")), (None, P("float32"))]))
        text = f"\n      !switch u:\n        int: 1\n        {pat}\n        _: 3"
    else:
        field = ("u", ("opt", P("int32")))
        text = f"\n      !switch u:\n        {pat}\n        _: 3"
    defs = [box, other, {"kind": "record", "name": "ZzHost", "tparams": [], "fields": [("ok", P("int32")), field], "computed": [("c", text)]}]
    p, old, wdir, wfile = _place(copy.deepcopy(pkg), defs, placement, rr)
    name = f"sw-{rule}-{form}-{target}-{placement}"
    ok, out, d = _validate(ybin, sc.path(f"b{b}"), name, p, old)
    report.case(distinct_key=(b, "switch-pattern", rule, form, target, placement))
    report.count("site.switch-" + form)
    _judge(report, ok, out, d, wdir, wfile, f"{rule}:{form}:{target}:{placement}", {"seed": seed, "base": b, "rule": rule, "pattern": pat, "switch_over": target, "placement": placement})


def _cycle(kind, imp_ns):
    A = lambda fields: {"kind": "record", "name": "ZzA", "tparams": [], "fields": fields}
    B = {"kind": "record", "name": "ZzB", "tparams": [], "fields": [("a", ("named", "ZzA", []))]}
    G = {"kind": "record", "name": "ZzG", "tparams": ["T"], "fields": [("v", ("tparam", "T"))]}
    if kind == "direct":
        return [A([("b", ("named", "ZzB", []))]), B]
    if kind == "self":
        return [A([("me", ("opt", ("named", "ZzA", [])))])]
    if kind == "through-alias":
        return [A([("b", ("named", "ZzAliasB", []))]), {"kind": "alias", "name": "ZzAliasB", "tparams": [], "type": ("named", "ZzB", [])}, B]
    if kind == "through-vector":
        return [A([("b", ("vec", ("named", "ZzB", []), None))]), B]
    if kind == "through-union-case":
        return [A([("b", ("union", True, [("x", P("int32")), ("y", ("named", "ZzB", []))]))]), B]
    if kind == "through-map-value":
        return [A([("b", ("map", P("string"), ("named", "ZzB", [])))]), B]
    if kind == "through-local-generic-argument":
        return [G, A([("b", ("named", "ZzG", [("named", "ZzB", [])]))]), B]
    if kind == "through-imported-generic-argument":
        return [A([("b", ("named", imp_ns + ".ZzImpBox", [("named", "ZzB", [])]))]), B]
    if kind == "through-imported-alias-argument":
        return [A([("b", ("named", imp_ns + ".ZzImpWrap", [("named", "ZzB", [])]))]), B]
    raise ValueError(kind)


CYCLES = ["direct", "self", "through-alias", "through-vector", "through-union-case", "through-map-value", "through-local-generic-argument",
          "through-imported-generic-argument", "through-imported-alias-argument"]

DEF_VIOLATIONS = [
    ("duplicate-type-name", lambda: [{"kind": "record", "name": "ZzDup", "tparams": [], "fields": [("a", P("int32"))]},
                                     {"kind": "enum", "name": "ZzDup", "flags": False, "base": None, "auto": True, "values": [("a", 0)]}]),
    ("badly-cased-type-name", lambda: [{"kind": "record", "name": "zzLower", "tparams": [], "fields": [("a", P("int32"))]}]),
    ("reserved-type-name", lambda: [{"kind": "record", "name": "Int32", "tparams": [], "fields": [("a", P("int32"))]}, {"kind": "alias", "name": "int32", "tparams": [], "type": P("int64")}]),
    ("duplicate-field-name", lambda: [{"kind": "record", "name": "ZzRec", "tparams": [], "fields": [("a", P("int32")), ("a", P("string"))]}]),
    ("badly-cased-field-name", lambda: [{"kind": "record", "name": "ZzRec", "tparams": [], "fields": [("BadField", P("int32"))]}]),
    ("duplicate-step-name", lambda: [{"kind": "protocol", "name": "ZzProt", "steps": [("a", P("int32"), False), ("a", P("string"), True)]}]),
    ("badly-cased-step-name", lambda: [{"kind": "protocol", "name": "ZzProt", "steps": [("Bad_Step", P("int32"), False)]}]),
    ("unused-type-parameter", lambda: [{"kind": "record", "name": "ZzRec", "tparams": ["T"], "fields": [("a", P("int32"))]}]),
    # one name declared twice: every use resolves to the later declaration, the earlier one can never be used (and the targets have no two parameters of one name)
    ("repeated-type-parameter-in-record", lambda: [{"kind": "record", "name": "ZzPair", "tparams": ["T", "T"], "fields": [("a", ("tparam", "T")), ("b", ("tparam", "T"))]}]),
    ("repeated-type-parameter-in-alias", lambda: [{"kind": "alias", "name": "ZzLookup", "tparams": ["K", "K"], "type": ("map", ("tparam", "K"), P("int32"))}]),
    ("repeated-type-parameter-among-three", lambda: [{"kind": "record", "name": "ZzTri", "tparams": ["A", "B", "A"], "fields": [("a", ("tparam", "A")), ("b", ("tparam", "B"))]}]),
    ("badly-cased-type-parameter", lambda: [{"kind": "record", "name": "ZzRec", "tparams": ["t"], "fields": [("a", ("tparam", "t"))]}]),
    ("wrong-generic-arity", lambda: [{"kind": "record", "name": "ZzG", "tparams": ["T"], "fields": [("a", ("tparam", "T"))]},
                                     {"kind": "record", "name": "ZzUse", "tparams": [], "fields": [("x", ("named", "ZzG", [P("int32"), P("int32")]))]}]),
    ("missing-generic-arguments", lambda: [{"kind": "record", "name": "ZzG", "tparams": ["T"], "fields": [("a", ("tparam", "T"))]},
                                           {"kind": "record", "name": "ZzUse", "tparams": [], "fields": [("x", ("vec", ("named", "ZzG", []), None))]}]),
    ("map-key-through-generic-argument", lambda: [{"kind": "alias", "name": "ZzKeyed", "tparams": ["T"], "type": ("map", ("tparam", "T"), P("int32"))},
                                                  {"kind": "record", "name": "ZzUse", "tparams": [], "fields": [("x", ("named", "ZzKeyed", [("vec", P("string"), None)]))]}]),
    # rules that are only broken once type arguments are substituted; a valid use of the same generic comes first, and one of them
    # is spelled exactly like a valid reference elsewhere (same simple name in the imported package)
    ("union-duplicate-after-substitution", lambda: [{"kind": "alias", "name": "ZzChoice", "tparams": ["A", "B"], "type": ("union", False, [(None, ("tparam", "A")), (None, ("tparam", "B")), (None, P("string"))])},
                                                   {"kind": "record", "name": "ZzUseOk", "tparams": [], "fields": [("x", ("named", "ZzChoice", [P("int32"), P("float32")]))]},
                                                   {"kind": "record", "name": "ZzUse", "tparams": [], "fields": [("x", ("named", "ZzChoice", [P("int32"), P("string")]))]}]),
    ("union-duplicate-after-nested-substitution", lambda: [{"kind": "record", "name": "ZzBox", "tparams": ["T"], "fields": [("v", ("tparam", "T"))]},
                                                          {"kind": "alias", "name": "ZzPair", "tparams": ["A", "B"], "type": ("union", False, [(None, ("tparam", "A")), (None, ("tparam", "B"))])},
                                                          {"kind": "record", "name": "ZzWrap", "tparams": ["T"], "fields": [("p", ("named", "ZzPair", [("named", "ZzBox", [("tparam", "T")]), ("named", "ZzBox", [P("int32")])]))]},
                                                          {"kind": "alias", "name": "ZzUseOk", "tparams": [], "type": ("named", "ZzWrap", [P("float32")])},
                                                          {"kind": "alias", "name": "ZzUse", "tparams": [], "type": ("named", "ZzWrap", [P("int32")])}]),
    ("union-duplicate-after-substitution-same-name-as-imported-generic", lambda: [{"kind": "alias", "name": "ZzImpSame", "tparams": ["A", "B"], "type": ("union", False, [(None, ("tparam", "A")), (None, ("tparam", "B")), (None, P("string"))])},
                                                                                 {"kind": "record", "name": "ZzUse", "tparams": [], "fields": [("x", ("named", "ZzImpSame", [P("int32"), P("string")]))]}]),
    ("enum-duplicate-symbol", lambda: [{"kind": "enum", "name": "ZzE", "flags": False, "base": None, "auto": False, "values": [("a", 0), ("a", 1)]}]),
    ("enum-duplicate-value", lambda: [{"kind": "enum", "name": "ZzE", "flags": False, "base": None, "auto": False, "values": [("a", 1), ("b", 1)]}]),
    ("enum-value-out-of-range", lambda: [{"kind": "enum", "name": "ZzE", "flags": False, "base": "uint8", "auto": False, "values": [("a", 0), ("b", 256)]}]),
    ("flags-value-out-of-range", lambda: [{"kind": "enum", "name": "ZzE", "flags": True, "base": "int8", "auto": False, "values": [("a", 1), ("b", 128)]}]),
    ("enum-non-integer-base", lambda: [{"kind": "enum", "name": "ZzE", "flags": False, "base": "float32", "auto": False, "values": [("a", 0)]}]),
    ("enum-badly-cased-symbol", lambda: [{"kind": "enum", "name": "ZzE", "flags": False, "base": None, "auto": False, "values": [("Bad_Symbol", 0)]}]),
    ("computed-field-unknown-name", lambda: [{"kind": "record", "name": "ZzRec", "tparams": [], "fields": [("a", P("int32"))], "computed": [("c", "nope + 1")]}]),
    ("computed-field-ill-typed", lambda: [{"kind": "record", "name": "ZzRec", "tparams": [], "fields": [("a", P("int32")), ("s", P("string"))], "computed": [("c", "a * s")]}]),
    ("computed-field-cycle", lambda: [{"kind": "record", "name": "ZzRec", "tparams": [], "fields": [("a", P("int32"))], "computed": [("c", "d + 1"), ("d", "c + 1")]}]),
    # a variable declared by a !switch case is in scope in that case's expression only - not in the expression of another computed
    # field the case refers to, whichever of the two is declared (and therefore resolved) first
    ("computed-field-uses-switch-variable-of-its-referrer", lambda: [{"kind": "record", "name": "ZzRec", "tparams": [], "fields": [("u", ("union", False, [(None, P("int32")), (None, P("float32"))]))],
                                                                      "computed": [("a", "\n      !switch u:\n        int v: b\n        float: 0"), ("b", "v")]}]),
    ("computed-field-uses-switch-variable-of-its-referrer-declared-first", lambda: [{"kind": "record", "name": "ZzRec", "tparams": [], "fields": [("u", ("union", False, [(None, P("int32")), (None, P("float32"))]))],
                                                                                     "computed": [("b", "v"), ("a", "\n      !switch u:\n        int v: b\n        float: 0")]}]),
    ("computed-field-of-other-record-uses-switch-variable", lambda: [{"kind": "record", "name": "ZzInner", "tparams": [], "fields": [("x", P("int32"))], "computed": [("c", "w + x")]},
                                                                      {"kind": "record", "name": "ZzRec", "tparams": [], "fields": [("inner", ("named", "ZzInner", [])), ("o", ("opt", P("int32")))],
                                                                       "computed": [("a", "\n      !switch o:\n        int w: inner.c\n        _: 0")]}]),
    # names that must be distinct across kinds of members, and after the case conversion the generated code applies
    ("computed-field-named-like-a-field", lambda: [{"kind": "record", "name": "ZzRec", "tparams": [], "fields": [("a", P("int32")), ("b", P("int32"))], "computed": [("a", "b + 1")]}]),
    ("computed-field-like-a-field-after-snake-case", lambda: [{"kind": "record", "name": "ZzRec", "tparams": [], "fields": [("fooBar", P("int32"))], "computed": [("fooBAR", "1")]}]),
    ("computed-fields-collide-after-snake-case", lambda: [{"kind": "record", "name": "ZzRec", "tparams": [], "fields": [("x", P("int32"))], "computed": [("fooBar", "1"), ("fooBAR", "2")]}]),
    ("fields-collide-after-snake-case", lambda: [{"kind": "record", "name": "ZzRec", "tparams": [], "fields": [("fooBar", P("int32")), ("fooBAR", P("string"))]}]),
    ("steps-collide-after-snake-case", lambda: [{"kind": "protocol", "name": "ZzProt", "steps": [("fooBar", P("int32"), False), ("fooBAR", P("string"), True)]}]),
    ("enum-symbols-collide-after-case-conversion", lambda: [{"kind": "enum", "name": "ZzE", "flags": False, "base": None, "auto": False, "values": [("fooBar", 0), ("fooBAR", 1)]}]),
    ("computed-field-bad-index", lambda: [{"kind": "record", "name": "ZzRec", "tparams": [], "fields": [("v", ("vec", P("int32"), 3))], "computed": [("c", "v[7]")]}]),
] + [("cycle-" + k, (lambda k=k: k)) for k in CYCLES]


def _def_case(report, ybin, sc, seed, b, pkg, dv, placement, rr):
    rule, mk = dv
    base = copy.deepcopy(pkg)
    imp = base.imports[0]
    # generic helpers in the imported package for the cycles that run through it
    imp.defs = imp.defs + [{"kind": "record", "name": "ZzImpBox", "tparams": ["T"], "fields": [("v", ("tparam", "T"))]},
                           {"kind": "alias", "name": "ZzImpWrap", "tparams": ["T"], "type": ("vec", ("tparam", "T"), None)}]
    if rule.endswith("same-name-as-imported-generic") and placement != "import":
        # the imported package has a generic of the same simple name for which the same reference is valid
        imp.defs = imp.defs + [{"kind": "alias", "name": "ZzImpSame", "tparams": ["A", "B"], "type": ("union", False, [(None, ("tparam", "A")), (None, ("tparam", "B"))])},
                               {"kind": "record", "name": "ZzImpUsesSame", "tparams": [], "fields": [("x", ("named", "ZzImpSame", [P("int32"), P("string")]))]}]
    x = mk()
    if isinstance(x, str):
        if placement == "import" and x.startswith("through-imported"):
            return   # the imported package has no package of its own to import from
        defs = _cycle(x, imp.namespace)
    else:
        defs = x
    p, old, wdir, wfile = _place(base, defs, placement, rr)
    name = f"d-{rule}-{placement}"
    ok, text, d = _validate(ybin, sc.path(f"b{b}"), name, p, old)
    report.case(distinct_key=(b, rule, placement))
    report.count(f"rule.{rule}")
    report.count(f"placement.{placement}")
    _judge(report, ok, text, d, wdir, wfile, f"{rule}:{placement}", {"seed": seed, "base": b, "rule": rule, "placement": placement})
