"""C09 — the union / map / array rules themselves, against their Lean model.

Model: YardlModel/TypeRules.lean (`nodeOk`, one predicate per type node; `typeOk` = every node obeys it);
theorems `type_rules_enforced_anywhere`, `null_must_be_first`, `unions_do_not_nest`, `map_key_must_be_scalar`, ...
Correspondence: random types over primitive names — about 40 % of them break a rule somewhere: null not first, null
alone, nested unions / optionals, duplicate cases (`int` vs `int32`, `uint64` vs `size`), untagged cases that are
vectors / maps, badly cased or duplicate tags, non-scalar map keys, inconsistent array dimensions — written as the
alias `Zz: <type>` in expanded YAML; `yardl validate` must accept exactly the types the model accepts, and must answer
with diagnostics (no crash).
"""
import json
import os
import re

import vlib

PR = ["int", "int32", "long", "int64", "uint64", "size", "string", "float", "float32", "double", "bool", "date", "complexfloat", "uint8", "byte"]
TAGS = ["a", "b", "c", "aB", "A", "a_b", "x1", "1x", "null"]
DIMN = ["x", "y", "z", "X", "a_b", "ch"]


def gen(r, depth):
    c = r.random()
    if depth <= 0 or c < 0.3:
        return ["named", r.choice(PR), []]
    if c < 0.42:
        return ["opt", gen(r, depth - 1)]
    if c < 0.68:
        n = r.choice([1, 2, 2, 3, 3, 4])
        tagged = r.random() < 0.4
        cases = []
        for _ in range(n):
            tag = r.choice(TAGS) if tagged else None
            if r.random() < 0.2:
                cases.append([tag, None])
            else:
                cases.append([tag, gen(r, depth - 1) if r.random() < 0.5 else ["named", r.choice(PR), []]])
        if r.random() < 0.3:
            cases.insert(0, ["null" if tagged else None, None])
        return ["union", cases]
    if c < 0.78:
        return ["vector", gen(r, depth - 1), r.choice([None, None, 0, 3])]
    if c < 0.9:
        k = r.choice(["none", "count", "names", "lengths", "both", "mixed"])
        n = r.choice([1, 2, 3])
        if k == "none":
            d = None
        elif k == "count":
            d = [[None, None] for _ in range(n)]
        elif k == "names":
            d = [[r.choice(DIMN), None] for _ in range(n)]
        elif k == "lengths":
            d = [[None, r.choice([1, 2])] for _ in range(n)]
        elif k == "both":
            d = [[r.choice(DIMN), r.choice([1, 2])] for _ in range(n)]
        else:
            d = [[r.choice(DIMN), r.choice([None, 2])] for _ in range(n)]
        return ["array", gen(r, depth - 1), d]
    return ["map", gen(r, depth - 1) if r.random() < 0.25 else ["named", r.choice(PR), []], gen(r, depth - 1)]


def consistent_tags(t):
    """a union is written either with tags on every case or on none"""
    if t[0] == "union":
        tagged = any(c[0] is not None for c in t[1])
        for j, c in enumerate(t[1]):
            if tagged and c[0] is None:
                c[0] = "u%d" % j
            if c[1] is not None:
                consistent_tags(c[1])
    elif t[0] in ("opt", "vector", "array"):
        consistent_tags(t[1])
    elif t[0] == "map":
        consistent_tags(t[1])
        consistent_tags(t[2])


def expanded(t):
    k = t[0]
    if k == "named":
        return json.dumps(t[1])
    if k == "opt":
        return "[null, " + expanded(t[1]) + "]"
    if k == "union":
        if all(c[0] is None for c in t[1]):
            return "[" + ", ".join("null" if c[1] is None else expanded(c[1]) for c in t[1]) + "]"
        return "!union {" + ", ".join(json.dumps(c[0]) + ": " + ("null" if c[1] is None else expanded(c[1])) for c in t[1]) + "}"
    if k == "vector":
        return "!vector {items: " + expanded(t[1]) + ("" if t[2] is None else f", length: {t[2]}") + "}"
    if k == "array":
        d = t[2]
        s = "!array {items: " + expanded(t[1])
        if d is not None:
            if d and all(n is not None and l is not None for n, l in d) and len({n for n, _ in d}) == len(d):
                s += ", dimensions: {" + ", ".join(f"{n}: {l}" for n, l in d) + "}"
            else:
                s += ", dimensions: [" + ", ".join(("null" if n is None and l is None else (str(l) if n is None else (n if l is None else "{name: %s, length: %d}" % (n, l))))
                                                   for n, l in d) + "]"
        return s + "}"
    return "!map {keys: " + expanded(t[1]) + ", values: " + expanded(t[2]) + "}"


def type_rules(report, ybin, sc, lean, rng, n, seed):
    root = sc.path("type-rules")
    os.makedirs(root, exist_ok=True)
    open(os.path.join(root, "_package.yml"), "w").write("namespace: Ru\n")
    for i in range(n):
        t = gen(rng, 3)
        consistent_tags(t)
        y = expanded(t)
        open(os.path.join(root, "model.yml"), "w").write(f"Zz: {y}\n")
        rc, out, err = vlib.yardl(ybin, root, "validate")
        text = out + err
        m = lean.ask({"op": "type_rules", "sur": t})
        report.case(distinct_key=("type-rules", y))
        report.count("type-rules.accepted" if rc == 0 else "type-rules.rejected")
        replay = {"seed": seed, "index": i, "type": y, "sur": t, "model": m, "rc": rc, "output": text[-1500:],
                  "theorem_or_correspondence": "TypeRules.typeOk vs yardl validate"}
        if "panic" in text or "goroutine " in text or rc not in (0, 1):
            report.violation("type-rules:crash", replay, "the validator crashed on a type instead of answering with diagnostics")
            continue
        if "ok" not in m:
            report.violation("model:type-rules", replay, "no-failing-input-found")
            continue
        if m["ok"] != (rc == 0):
            msg = re.findall(r"model\.yml:\d+:\d+: ([^\n\x1b]*)", text)
            first = re.sub(r"'[^']*'", "'..'", msg[0])[:60] if msg else "accepted"
            report.violation(f"type-rules:verdict-differs:model-{'accepts' if m['ok'] else 'rejects'}:{first}", replay,
                             "the validator and the model of the type rules disagree on this type")


ESYMS = ["a", "b", "c", "ab", "x1", "zz", "ok", "on", "A", "a_b", "1x"]
EBASES = [None, None, None, "int8", "uint8", "int16", "uint16", "int32", "uint32", "int64", "uint64", "size", "float32", "string", "bool"]
ERANGE = {"int8": (-128, 127), "uint8": (0, 255), "int16": (-2**15, 2**15 - 1), "uint16": (0, 2**16 - 1), "int32": (-2**31, 2**31 - 1), "uint32": (0, 2**32 - 1),
          "int64": (-2**63, 2**63 - 1), "uint64": (0, 2**64 - 1), "size": (0, 2**64 - 1)}


def enum_rules(report, ybin, sc, lean, rng, n, seed):
    """random `!enum` / `!flags` definitions (symbols, values at the edges of the base type's range, non-integer base types)
    judged by `yardl validate` and by `TypeRules.enumOk`; symbols are lower-case so that they stay distinct in UPPER_SNAKE_CASE"""
    root = sc.path("enum-rules")
    os.makedirs(root, exist_ok=True)
    open(os.path.join(root, "_package.yml"), "w").write("namespace: Ru\n")
    for i in range(n):
        base = rng.choice(EBASES)
        flags = rng.random() < 0.4
        lo, hi = ERANGE.get(base or "int32", (-5, 5))
        k = rng.choice([1, 2, 3, 4])
        syms = rng.sample(ESYMS[:8], k) if rng.random() < 0.7 else [rng.choice(ESYMS) for _ in range(k)]
        vals = []
        for s in syms:
            v = rng.choice([0, 1, 2, 4, 8, lo, hi, rng.randint(lo, hi)]) if rng.random() < 0.8 else rng.choice([lo - 1, hi + 1])
            vals.append([s, v])
        if rng.random() < 0.6:
            seen = set()
            for e in vals:          # mostly distinct values
                while e[1] in seen:
                    e[1] = e[1] + 1 if e[1] < hi else e[1] - 3
                seen.add(e[1])
        txt = "E: " + ("!flags" if flags else "!enum") + "\n" + (f"  base: {base}\n" if base else "") + "  values:\n" + "".join(f"    {json.dumps(s)}: {v}\n" for s, v in vals)
        open(os.path.join(root, "model.yml"), "w").write(txt)
        rc, out, err = vlib.yardl(ybin, root, "validate")
        text = out + err
        m = lean.ask({"op": "enum_rules", "base": base, "values": vals})
        report.case(distinct_key=("enum-rules", txt))
        report.count("enum-rules.accepted" if rc == 0 else "enum-rules.rejected")
        replay = {"seed": seed, "index": i, "model": txt, "lean": m, "rc": rc, "output": text[-1200:], "theorem_or_correspondence": "TypeRules.enumOk vs yardl validate"}
        if "panic" in text or "goroutine " in text or rc not in (0, 1):
            report.violation("enum-rules:crash", replay, "the validator crashed on an enum definition")
        elif "ok" not in m:
            report.violation("model:enum-rules", replay, "no-failing-input-found")
        elif m["ok"] != (rc == 0):
            report.violation(f"enum-rules:verdict-differs:model-{'accepts' if m['ok'] else 'rejects'}", replay, "the validator and the model of the enum rules disagree on this definition")
