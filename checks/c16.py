"""C16 — a truncated stream is reported, never mistaken for a complete one.

Proof: Props/C16.lean (no proper prefix decodes; reader model raises end-of-stream on every cut, never
reads outside its window). Correspondence: (1) CIS model vs the real C++ CodedInputStream at small
capacities on every-prefix inputs, the Python CodedInputStream judged by the property's own oracle;
(2) every prefix (small streams) / refill-boundary bands and random cuts (large streams) of Lean-encoded
reference streams through generated C++ and Python readers: must raise, and the values handed to the
writer before the error must be a prefix of the values written.
"""
import json
import os
import random
import time

import codeclab
import modelgen
import streamcorr
import vlib
from checks.c01 import _files, _errclass

THEOREMS = ["Yardl.C16.old_version_prefix_never_decodes", "Yardl.C16.value_prefix_never_decodes", "Yardl.C16.body_prefix_never_decodes",
            "Yardl.C16.delivered_values_are_written", "Yardl.C16.reader_byte_cut",
            "Yardl.C16.reader_var64_cut", "Yardl.C16.reader_var32_cut", "Yardl.C16.reader_bytes_cut",
            "Yardl.C16.verify_finished_iff", "Yardl.C16.py_reader_byte", "Yardl.C16.py_reader_fixed", "Yardl.C16.py_reader_varint",
            "Yardl.C16.py_reader_bytes", "Yardl.C16.py_reader_byte_cut", "Yardl.C16.py_reader_fixed_cut", "Yardl.C16.py_reader_varint_cut",
            "Yardl.C16.py_reader_bytes_cut", "Yardl.C16.py_buffer_error_only_when_truncated",
            "Yardl.C16.py_reader_truncated_sequence_is_an_error", "Yardl.C16.cpp_reader_truncated_sequence_is_eos"]


def run(report, tier, seed):
    quick = tier == "quick"
    report.rule = ("a case = one (stream, cut position, reader) run; streams are Lean-encoded reference streams of random and "
                   "directed packages; cuts: every prefix for streams < 400 bytes, else k*65536 +/- 12, value boundaries and "
                   "random positions; plus small-capacity op sequences cut at every prefix; distinct = distinct (stream, cut)")
    lean_ok, _ = vlib.check_lean(report, "Props.C16", THEOREMS)
    if not lean_ok:
        report.violation("lean:Props.C16", {"theorem_or_correspondence": "Props.C16 does not build or audit",
                                            "log": (report.extra.get("lean_build_log") or report.extra.get("lean_axiom_log", ""))[-3000:]},
                         "no-failing-input-found")
    with vlib.Scratch("vf-c16-") as sc:
        ybin = vlib.build_yardl(sc)
        lean = vlib.LeanDriver("wiredrv")
        # (1) runtime streams at small capacities
        sd = streamcorr.Drivers(sc)
        rng = random.Random(seed * 104729 + 16)

        def bad(kind, lang, detail):
            report.violation(f"stream:{kind}:{lang}", dict(detail, theorem_or_correspondence=f"CIS model vs {lang} runtime ({kind})"), "")
        t0 = time.time()
        streamcorr.reader_corr(report, sd, lean, rng, [10, 11, 16, 64], 25 if quick else 1500, 7, bad, truncate="all")
        sd.close()
        report.extra.setdefault("phase_seconds", {})["stream-models"] = round(time.time() - t0, 1)
        t0 = time.time()
        _witnesses(report, sc, lean)
        # the NDJSON format: every byte cut through the generated NDJSON readers of both languages
        from checks import c16_ndjson
        c16_ndjson.ndjson_cuts(report, sc, ybin, lean, seed, quick)
        report.extra["phase_seconds"]["witnesses+ndjson"] = round(time.time() - t0, 1)
        t0 = time.time()
        # (2) generated readers
        gens = [(i, modelgen.Gen(seed * 100019 + i)) for i in range(1 if quick else 20)]
        labs = codeclab.prepare_labs(sc, ybin, gens, ndjson=False, sanitize=not quick)
        dlab = codeclab.Lab(sc, ybin, 1000, modelgen.Gen(seed * 100019 + 1000), pkg=modelgen.directed_package(),
                            ndjson=False, sanitize=not quick).prepare()
        labs.append(dlab)
        for lab in labs:
            if not lab.ok:
                report.violation(f"{lab.stage}:model", {"seed": seed, "model_index": lab.idx, "error": lab.err, "files": _files(lab)}, "")
                continue
            report.count("models")
            _cuts(report, lab, lean, rng, quick, seed)
        report.extra["phase_seconds"]["generated-readers"] = round(time.time() - t0, 1)
        t0 = time.time()
        _old_version_cuts(report, sc, ybin, lean, rng, quick, seed)
        report.extra["phase_seconds"]["old-version-cuts"] = round(time.time() - t0, 1)
        lean.close()


def _old_version_cuts(report, sc, ybin, lean, rng, quick, seed):
    """streams written for a *previous* version, cut at every prefix, through the reader of the current version (its compatibility code reads
    and drops removed fields, converts changed ones): every cut is an error. The removed fields are the last data of the stream."""
    from checks import c05
    P = lambda p: ["prim", p]
    fields = {"a": ["a", P("int32")], "notes": ["notes", P("string")], "samples": ["samples", ["vec", P("float32"), None]], "tags": ["tags", ["vec", P("string"), None]],
              "o": ["o", ["opt", P("string")]], "bytes": ["bytes", ["vec", P("uint8"), None]]}
    chains = []
    # the removed field that is the very last data of the stream: a string, a vector of fixed-size items, a vector of strings, raw bytes, an optional
    for last in ("notes", "samples", "tags", "bytes", "o"):
        old = [fields[x] for x in ("a", "o", "samples", "tags", "bytes", "notes") if x != last] + [fields[last]]
        steps = lambda: [["s", ["ref", "R"], True], ["footer", ["ref", "R"], False]]
        chains.append((f"c16:removed-trailing-field-{last}", [c05._version([["rec", old, "R"]], steps()), c05._version([["rec", [fields["a"]], "R"]], steps())]))
    inproc = vlib.build_go_harness(sc, "inproc")
    import modelgen as mg
    for j, fixed in enumerate(chains if not quick else chains[:3]):
        lab = c05.Chain(sc, ybin, inproc, seed, 5000 + j, fixed=fixed)
        lab.prepare()
        if lab.err:
            report.violation(lab.stage + ":evolved-model", {"seed": seed, "chain": fixed[0], "error": lab.err, "files": lab.files()}, "an accepted evolution does not generate / compile")
            continue
        g = mg.Gen(seed * 31 + j)
        oldp = lab.protos[0]
        for k in range(1 if quick else 6):
            vals = g.gen_step_vals(oldp)
            if k == 0:
                # a long removed string at the very end (longer than the reader's buffer when k == 0 and not quick)
                # the last field is long (longer than the reader's buffer on the thorough tier)
                big = 70000 if not quick else 300
                for v in vals:
                    if v[0] == "single" and v[1][0] == "rec":
                        lastty = oldp[-1]["ty"]
                        fl = lastty[1] if lastty[0] == "rec" else None
                        name = fixed[0].rsplit("-", 1)[1]
                        if name == "notes":
                            v[1][1][-1] = ["s", ("n" * big).encode().hex()]
                        elif name == "tags":
                            v[1][1][-1] = ["list", [["s", b"tag".hex()] for _ in range(big // 10)]]
                        elif name == "o":
                            v[1][1][-1] = ["some", ["s", ("o" * big).encode().hex()]]
            parts = [g.gen_partition(len(v[1])) if v[0] == "stream" else [] for v in vals]
            enc = bytes.fromhex(lean.ask({"op": "enc_proto", "proto": oldp, "parts": parts, "vals": vals, "schema": lab.schemas[0]})["hex"])
            full_in, full_out = os.path.join(lab.root, f"t{k}.in"), os.path.join(lab.root, f"t{k}.out")
            open(full_in, "wb").write(enc)
            rc, err = lab.run_cpp("cur", full_in, full_out, [2])
            if rc != 0:
                report.violation("cpp:old-version:complete-stream-rejected", {"chain": fixed[0], "vals": vals, "stderr": err[-500:], "seed": seed}, "")
                continue
            n = len(enc)
            tail = 90 if quick else 400
            cuts = sorted(set(list(range(max(0, n - tail), n)) + [rng.randrange(n) for _ in range(15 if quick else 40)] + [n - 1 - 4096 * i for i in range(1, 20) if n - 1 - 4096 * i > 0]))
            for cut in cuts:
                cin, cout = os.path.join(lab.root, f"t{k}.cut"), os.path.join(lab.root, f"t{k}.cout")
                open(cin, "wb").write(enc[:cut])
                rc, err = lab.run_cpp("cur", cin, cout, [2])
                report.case(distinct_key=("old-version-cut", fixed[0], k, cut))
                report.count("old-version.cuts")
                if rc == 0:
                    report.violation("cpp:old-version:truncated-stream-accepted", {"chain": fixed[0], "stream_length": n, "cut_at": cut, "vals": vals if n < 2000 else "(long)",
                                                                                  "seed": seed},
                                     "a stream of a previous version cut before its end is read to completion without an error")
                    break


def _witnesses(report, sc, lean):
    """Replay of the witnesses of the defect fixed by def9fde on the real runtime header (corpus/C16)."""
    import subprocess
    d = os.path.join(vlib.VERIF, "corpus", "C16")
    if not os.path.isdir(d):
        return
    inc = os.path.join(vlib.REPO, "tooling", "internal", "cpp", "include", "detail", "binary")
    exe = sc.path("streamdrv_w")
    vlib.run(["g++", "-std=c++17", "-O1", "-I", inc, "-o", exe, os.path.join(vlib.HARNESS, "cpp", "streamdrv.cc")], check=True)
    for fn in sorted(os.listdir(d)):
        if not fn.endswith(".json"):
            continue
        w = json.load(open(os.path.join(d, fn)))
        p = subprocess.run([exe], input=(w["line"] + "\n").encode(), stdout=subprocess.PIPE, timeout=60)
        got = p.stdout.decode().split()
        report.case(distinct_key=("witness", fn))
        report.count("corpus.C16")
        if not got or got[-1] != "EOS":
            report.violation(w["key"], {"witness": fn, "line": w["line"][:200], "impl": got[-5:], "expected": "… EOS"}, "")


def _cut_positions(rng, n, hdr, quick):
    if n <= 400:
        return list(range(0, n))
    cuts = set([0, 1, 4, 5, 8, 9, hdr - 1, hdr, hdr + 1, n - 1, n - 2])
    for k in range(1, n // 65536 + 1):
        for d in range(-12, 13):
            if 0 <= k * 65536 + d < n:
                cuts.add(k * 65536 + d)
    for _ in range(12 if quick else 60):
        cuts.add(rng.randrange(0, n))
    return sorted(c for c in cuts if 0 <= c < n)


def _cuts(report, lab, lean, rng, quick, seed):
    g = lab.gen
    directed = lab.idx == 1000
    pyjobs, pending = [], []
    protos = list(lab.protos.items())
    for pname, pj in protos:
        nstreams = sum(1 for s in pj if s["stream"])
        # (quick tier: the >64 KiB variant for the first two protocols with a stream of each package)
        n_big = getattr(lab, "_n_big", 0)
        variants = ["small", "big"] if nstreams and (not quick or n_big < 2) else ["small"]
        if "big" in variants:
            lab._n_big = n_big + 1
        for variant in variants:
            if variant == "big":
                vals = g.gen_step_vals(pj, stream_len=0)
                si = g.rng.choice([i for i, s in enumerate(pj) if s["stream"]])
                items, total = [], 0
                while total < 140000 and len(items) < 40000:
                    v = g.gen_value(pj[si]["ty"], 3)
                    items.append(v)
                    total += max(4, len(json.dumps(v)) // 6)
                vals[si] = ["stream", items]
            else:
                vals = g.gen_step_vals(pj, stream_len=g.rng.choice([0, 1, 2, 3]), size=2)
            parts = [g.gen_partition(len(v[1])) if v[0] == "stream" else [] for v in vals]
            ref = bytes.fromhex(lean.ask({"op": "enc_proto", "proto": pj, "parts": parts, "vals": vals, "schema": lab.schemas[pname]})["hex"])
            hdr = len(ref) - len(bytes.fromhex(lean.ask({"op": "enc_proto", "proto": pj, "parts": parts, "vals": vals, "schema": ""})["hex"])) + 10
            cuts = _cut_positions(rng, len(ref), hdr, quick)
            if len(ref) <= 400 and len(cuts) > (120 if quick else 400):
                cuts = sorted(rng.sample(cuts, 120 if quick else 400))
            if directed and quick and variant == "small":
                cuts = sorted(rng.sample(cuts, min(len(cuts), 25)))
            for cut in cuts:
                inp = lab.tmp(".cut.bin")
                open(inp, "wb").write(ref[:cut])
                ctx = {"proto": pname, "vals": vals if len(json.dumps(vals)) < 4000 else "(large)", "parts": parts if variant == "small" else "(large)",
                       "cut": cut, "ref_len": len(ref), "model_index": lab.idx, "seed": seed, "variant": variant}
                bufs = [g.rng.choice([1, 2, 7]) for _ in range(nstreams)]
                outc = lab.tmp(".cpp.bin")
                rc, err = lab.run_cpp(pname, "b", "b", inp, outc, bufs, timeout=60)
                _judge(report, lab, lean, pj, vals, "cpp", rc, err, outc, dict(ctx, bufsizes=bufs), ref)
                outp = lab.tmp(".py.bin")
                pyjobs.append({"proto": pname, "infmt": "b", "outfmt": "b", "in": inp, "out": outp})
                pending.append((pj, vals, outp, ctx, ref))
    results = lab.run_py(pyjobs, timeout=1200)
    for (pj, vals, outp, ctx, ref), res in zip(pending, results):
        _judge(report, lab, lean, pj, vals, "py", res["rc"], res["exc"], outp, ctx, ref)


def _judge(report, lab, lean, pj, vals, lang, rc, err, outpath, ctx, ref):
    report.case(distinct_key=(ctx["model_index"], ctx["proto"], ctx["variant"], ctx["cut"], lang),
                sample={"protocol": ctx["proto"], "cut": ctx["cut"], "of": ctx["ref_len"], "lang": lang} if ctx["cut"] % 97 == 3 else None)
    report.count(f"cuts.{lang}.{ctx['variant']}")
    replay = dict(ctx, lang=lang, files=_files(lab), ref_hex=ref[:ctx["cut"]].hex() if ctx["cut"] < 6000 else "(omitted)")
    if rc == -9:
        report.violation(f"{lang}:hang", replay, "reader did not terminate on a truncated stream")
        return
    if rc == 0:
        report.violation(f"{lang}:truncated-stream-accepted", replay, "reader and Close() completed normally on a proper prefix")
        return
    if rc not in (3,):
        report.violation(f"{lang}:crash:{rc}:{_errclass(err)}", dict(replay, stderr=err), "abnormal termination (signal / sanitizer) on a truncated stream")
        return
    report.count(f"errors.{lang}.{_errclass(err)[:40]}")
    try:
        out = open(outpath, "rb").read()
    except OSError:
        out = b""
    if len(out) < 10:
        return  # nothing delivered
    r = lean.ask({"op": "dec_proto_partial", "proto": pj, "hex": out.hex()})
    if "error" in r:
        return  # header not even complete: nothing delivered
    got = modelgen.canon_stepvals(r["vals"])
    want = modelgen.canon_stepvals(vals)
    ok = len(got) <= len(want)
    if ok:
        for i, gv in enumerate(got):
            last = i == len(got) - 1
            if gv[0] == "stream" and last:
                ok = ok and want[i][0] == "stream" and gv[1] == want[i][1][:len(gv[1])]
            else:
                ok = ok and gv == want[i]
    if not ok:
        report.violation(f"{lang}:delivered-values-differ", dict(replay, delivered=r["vals"] if len(json.dumps(r["vals"])) < 3000 else "(large)"),
                         "a value delivered before the error differs from the value written at that position")
