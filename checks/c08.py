"""C08 — every accepted package yields well-formed code for every target and option set.

Proof: Props/C08.lean (identifier derivation never yields a reserved word of its target, over the
reserved-name tables regenerated from the current source).
Tie / decision by execution:
  * identifier derivation: the real FieldIdentifierName / EnumValueIdentifierName /
    ComputedFieldIdentifierName / TypeIdentifierName of the three back ends (in-process) against
    `Names.ident` on every reserved word of every target (in camelCase, PascalCase and as written)
    and on random names;
  * generation matrix: random accepted packages (imports, generics, unions, computed fields) x option
    sets {generateNDJson, generateHDF5, generateCMakeLists, overrideArrayHeader} x {cpp, python,
    matlab, json}: `yardl generate` must succeed, every generated Python module must compile and the
    package must import (binary, ndjson, types, protocols), the generated C++ must compile as C++17;
  * names: packages whose type, field, step, enum-symbol, union-tag and namespace names are the
    reserved words of each target and pairs that collide after case conversion;
  * the scaffold of `yardl init <name>` for several names must validate, generate, import and compile.
"""
import concurrent.futures
import json
import os
import random
import re
import subprocess

import gen_tables
import itertools
import shutil
import modelgen
import vlib

THEOREMS = ["Yardl.C08.derived_identifier_never_reserved", "Yardl.C08.cpp_suffixes_escape", "Yardl.C08.python_suffix_escapes",
            "Yardl.C08.matlab_suffix_escapes", "Yardl.C08.tables_cover_the_languages", "Yardl.C08.cpp_field_never_reserved",
            "Yardl.C08.python_member_never_reserved", "Yardl.C08.matlab_member_never_reserved", "Yardl.C08.cpp_type_suffix_escapes",
            "Yardl.C08.cpp_types_table_covers", "Yardl.C08.cpp_type_never_reserved", "Yardl.C08.tables_cover_generated_code_names",
            "Yardl.C08.no_reserved_word_ends_with_a_suffix", "Yardl.C08.snake_case_keeps_the_letters", "Yardl.C08.same_snake_case_only_by_capitalisation",
            "Yardl.C08.underscore_suffix_keeps_members_distinct", "Yardl.C08.underscore_suffix_keeps_enum_values_distinct",
            "Yardl.C08.cpp_plain_field_suffix_collided", "Yardl.C08.cpp_fields_stay_distinct", "Yardl.C08.cpp_field_rec_never_reserved",
            "Yardl.C08.pascal_case_keeps_members_distinct", "Yardl.C08.cpp_step_methods_collide_iff", "Yardl.C08.cpp_step_methods_collide_witness",
            "Yardl.C08.accepted_members_get_distinct_identifiers"]


def run(report, tier, seed):
    quick = tier == "quick"
    report.rule = ("a case = one (package, option set, target) generated and checked (Python: compile + import; C++: compile as C++17), or one name "
                   "pushed through the real identifier functions; distinct = distinct (package text, options, target) / names; non-trivial = all")
    with vlib.Scratch("vf-c08g-") as gsc:
        tables = gen_tables.generate(gsc)
    lean_ok, _ = vlib.check_lean(report, "Props.C08", THEOREMS)
    if not lean_ok:
        report.violation("lean:Props.C08", {"theorem_or_correspondence": "Props.C08 does not build or audit (reserved tables of the current source?)",
                                            "log": (report.extra.get("lean_build_log") or report.extra.get("lean_axiom_log", ""))[-3000:]},
                         "no-failing-input-found")
    with vlib.Scratch("vf-c08-") as sc:
        ybin = vlib.build_yardl(sc)
        inproc = vlib.build_go_harness(sc, "inproc")
        lean = vlib.LeanDriver("wiredrv")
        rng = random.Random(seed * 8009 + 8)
        reserved = tables["pipeline"]["reserved"]
        identifiers(report, inproc, lean, reserved, rng, 300 if quick else 3000)
        member_rules(report, ybin, sc, lean, rng, 60 if quick else 600, seed)
        lean.close()
        jobs = []
        jobs += list(known_finding_witnesses(sc))
        jobs += list(cross_packages(sc, quick))
        jobs += list(literal_packages(sc))
        jobs += list(runtime_name_packages(sc, ybin, report))
        jobs += list(name_packages(sc, reserved, rng, quick))
        jobs += list(matrix_packages(sc, rng, seed, 3 if quick else 24, quick))
        jobs += list(init_scaffolds(sc, ybin, quick))
        with concurrent.futures.ThreadPoolExecutor(max_workers=max(2, vlib.NCPU // 3)) as ex:
            results = list(ex.map(lambda j: build_job(ybin, j), jobs))
        for j, res in zip(jobs, results):
            judge(report, j, res, seed)


# ------------------------------------------------------------------------------ identifier derivation

def camel(w):
    parts = [p for p in re.split(r"[_]+", w) if p]
    if not parts:
        return w
    return parts[0][:1].lower() + parts[0][1:] + "".join(p[:1].upper() + p[1:] for p in parts[1:])


def identifiers(report, inproc, lean, reserved, rng, n_random):
    words = set()
    for lang in reserved:
        for w in reserved[lang]:
            words.update([w, camel(w), camel(w)[:1].upper() + camel(w)[1:], w.lower(), w.upper()])
    letters = "abcdefghijklmnopqrstuvwxyzABCDEFGHIJKLMNOPQRSTUVWXYZ0123456789"
    for _ in range(n_random):
        words.add(rng.choice("abcdefghijklmnopqrstuvwxyz") + "".join(rng.choice(letters) for _ in range(rng.choice([0, 1, 2, 4, 7, 12]))))
    # names that look like escaped names: <reserved>Field, <reserved>FieldField, <reserved>Value, <reserved>Type (the C++ suffixes in camelCase)
    for w in list(reserved.get("cpp", []))[::3 if n_random < 1000 else 1]:
        if re.fullmatch(r"[a-z][a-z0-9]*", w):
            words.update([w + "Field", w + "FieldField", w + "Value", w + "_field", w.capitalize() + "Type"])
    words = sorted(w for w in words if w and re.fullmatch(r"[A-Za-z][A-Za-z0-9_]*", w))
    case_conversions(report, inproc, lean, words, rng, n_random)
    p = subprocess.run([inproc, "idents"], input="\n".join(words).encode(), stdout=subprocess.PIPE, check=True)
    rows = [json.loads(l) for l in p.stdout.decode().splitlines() if l.strip()]
    spec = [("cppField", "cpp", "_field", "snake"), ("pyField", "python", "_", "snake"), ("matlabField", "matlab", "_", "snake"),
            ("pyEnumValue", "python", "_", "upperSnake"), ("matlabEnumValue", "matlab", "_", "upperSnake"),
            ("cppComputed", "cpp", "_field", "pascal"), ("pyComputed", "python", "_", "snake"),
            ("cppType", "cpp_types", "_Type", "name"), ("pyType", "python", "_", "name"), ("matlabType", "matlab", "_", "name")]
    for r in rows:
        for key, lang, suffix, cased_key in spec:
            cased = r[cased_key]
            want = lean.ask({"op": "ident", "lang": lang, "suffix": suffix, "cased": cased, "rule": "recursive" if key == "cppField" else "plain"})["ident"]
            report.case(distinct_key=(key, r["name"]))
            report.count("ident." + key)
            if r[key] != want:
                report.violation(f"identifier:{key}:differs-from-model", {"name": r["name"], "converted": cased, "real": r[key], "model": want,
                                                                           "theorem_or_correspondence": f"Names.ident vs {key}"},
                                 "the back end derives an identifier other than 'converted name, suffixed when reserved'")
            if r[key] in reserved[lang]:
                report.violation(f"identifier:{key}:reserved-word", {"name": r["name"], "identifier": r[key], "language": lang},
                                 "a model name becomes a reserved word of the target language")
        # C++ enum values: k + PascalCase
        want = lean.ask({"op": "ident", "lang": "cpp", "suffix": "_value", "cased": "k" + r["pascal"]})["ident"]
        if r["cppEnumValue"] != want:
            report.violation("identifier:cppEnumValue:differs-from-model", {"name": r["name"], "real": r["cppEnumValue"], "model": want}, "")


def member_rules(report, ybin, sc, lean, rng, n, seed):
    """the validator's member-name rules against Case.membersOk: records (fields + computed fields), protocols (steps) and enums are not mixed -
    one record or one protocol per package, 2-5 names drawn from a pool made to collide (capitalisation, digits, underscores, length)"""
    pool = ["fooBar", "fooBAR", "foobar", "fooBaR", "a1", "a1b", "aB1", "ab1", "ab_1", "x", "xY", "xy", "class", "classField", "class_field", "Abc", "9a", "a" * 64, "a" * 65,
            "valueOne", "valueONE", "int32Value", "int32value", "uint8", "uInt8", "base64", "base64X", "tRex", "trex", "t_rex", "", "é", "a-b", "iOReader", "ioReader"]
    import concurrent.futures

    def one(k):
        r = random.Random(seed * 7919 + k)
        names = [r.choice(pool) for _ in range(r.choice([2, 2, 3, 4, 5]))]
        as_protocol = k % 3 == 2
        n_fields = len(names) if as_protocol else r.randrange(1, len(names) + 1)
        d = sc.path(f"mr{k}")
        os.makedirs(d, exist_ok=True)
        q = lambda s_: json.dumps(s_)
        if as_protocol:
            model = "P: !protocol\n  sequence:\n" + "".join(f"    {q(x)}: int\n" for x in names)
        else:
            model = "R: !record\n  fields:\n" + "".join(f"    {q(x)}: int\n" for x in names[:n_fields])
            if names[n_fields:]:
                model += "  computedFields:\n" + "".join(f"    {q(x)}: 1\n" for x in names[n_fields:])
        # duplicate YAML keys are rejected by the YAML layer before the rules run: the same verdict (rejected), another path
        open(os.path.join(d, "_package.yml"), "w").write("namespace: Mr\n")
        open(os.path.join(d, "model.yml"), "w").write(model)
        rc, out, err = vlib.yardl(ybin, d, "validate")
        shutil.rmtree(d, ignore_errors=True)
        return names, as_protocol, n_fields, rc, (out + err)[-600:], model
    with concurrent.futures.ThreadPoolExecutor(max_workers=8) as ex:
        results = list(ex.map(one, range(n)))
    for names, as_protocol, n_fields, rc, text, model in results:
        m = lean.ask({"op": "members_ok", "names": names})
        report.case(distinct_key=("member-rules", tuple(names), as_protocol, n_fields))
        if m.get("unmodelled"):
            report.count("member-rules.unmodelled")
            if rc == 0:
                report.violation("member-rules:name-outside-the-alphabet-accepted", {"names": names, "model": model, "output": text}, "a member name with characters outside [A-Za-z0-9_] is accepted")
            continue
        report.count("member-rules.accepted" if m["ok"] else "member-rules.rejected")
        if (rc == 0) != m["ok"]:
            report.violation(f"member-rules:{'accepted-by-the-tool-only' if rc == 0 else 'rejected-by-the-tool-only'}",
                             {"names": names, "as": "protocol steps" if as_protocol else f"record: {n_fields} fields, then computed fields", "model_yaml": model, "tool_rc": rc, "tool_output": text,
                              "model_verdict": m["ok"], "theorem_or_correspondence": "Case.membersOk vs validateRecordFieldNames / validateProtocolSequenceNames", "seed": seed},
                             "the validator's member-name rules are not the ones Yardl.C08.accepted_members_get_distinct_identifiers is about")


def case_conversions(report, inproc, lean, words, rng, n_random):
    """ToSnakeCase / ToUpperSnakeCase / ToPascalCase, the identifiers of every back end and the C++ protocol method names: the real functions
    against YardlModel/Case.lean — exhaustively on short names over a small alphabet (letters of both cases, digits incl. powers of two, `_`),
    on random longer names and on digit groups around the strconv.Atoi range; two names of one scope that the model says collide must collide
    in the real functions too (and the other way round: compared as whole tables)."""
    alpha = "abAB1248_0"
    names = list(words)
    for n in range(1, 5 if n_random < 1000 else 6):
        names += ["".join(t) for t in itertools.product(alpha, repeat=n)]
    for _ in range(n_random * 4):
        names.append("".join(rng.choice("abcxyzABCXYZ0123456789_") for _ in range(rng.choice([5, 6, 7, 9, 12, 20, 30]))))
    names += ["a_9223372036854775808", "a_9223372036854775807", "a_4611686018427387904", "a_18446744073709551616", "x_008", "x_0", "x_4", "x_5", "x_16",
              "a1", "ab1", "ab12B", "aB2c", "int32", "base64", "uint8Value", "classField", "classFieldField", "fooImpl", "foo"]
    names = sorted(set(n for n in names if n))
    p = subprocess.run([inproc, "idents"], input="\n".join(names).encode(), stdout=subprocess.PIPE, check=True)
    rows = [json.loads(l) for l in p.stdout.decode().splitlines() if l.strip()]
    keys = ["snake", "upperSnake", "pascal", "cppField", "pyField", "matlabField", "pyEnumValue", "matlabEnumValue", "cppEnumValue", "cppComputed", "pyComputed"]
    seen = {}
    for r in rows:
        m = lean.ask({"op": "case", "name": r["name"]})
        report.case(distinct_key=("case", r["name"]))
        report.count("case.names")
        if m.get("unmodelled"):
            report.count("case.unmodelled")
            continue
        for k in keys:
            if m.get(k) != r[k]:
                report.violation(f"identifier:case-conversion:{k}:differs-from-model",
                                 {"name": r["name"], "function": k, "real": r[k], "model": m.get(k), "theorem_or_correspondence": f"Case.{k} vs the real function"},
                                 "the case conversion / identifier derivation of the current source is not the one the theorems of Props/C08 are about")
        if m["cppWriterMethods"] != r["cppWriterMethods"] or m["cppReaderMethods"] != r["cppReaderMethods"]:
            report.violation("identifier:case-conversion:cppMethods:differs-from-model", {"name": r["name"], "real": [r["cppWriterMethods"], r["cppReaderMethods"]],
                                                                                          "model": [m["cppWriterMethods"], m["cppReaderMethods"]]}, "")
        # C++ fields: distinct converted names must get distinct identifiers (cpp_fields_stay_distinct, evaluated on the real function)
        if re.fullmatch(r"[a-z][a-zA-Z0-9]*", r["name"]):
            other = seen.setdefault(r["cppField"], r)
            if other is not r and other["snake"] != r["snake"]:
                report.violation("identifier:cppField:two-names-one-identifier", {"names": [other["name"], r["name"]], "snake_case": [other["snake"], r["snake"]],
                                                                                  "identifier": r["cppField"], "theorem_or_correspondence": "Yardl.C08.cpp_fields_stay_distinct"},
                                 "two fields with different snake_case names get the same C++ member name")


# ------------------------------------------------------------------------------ jobs

class Job:
    def __init__(self, kind, root, pkg=None, manifest_extra="", compile_cpp=False, ndjson=True, prebuilt=None, model_text=None, namespace="Ns", exercise=False):
        self.kind, self.root, self.pkg, self.manifest_extra = kind, root, pkg, manifest_extra
        self.exercise = exercise    # Python: also construct, print, compare and round-trip default values (pynames_exercise.py)
        self.compile_cpp, self.ndjson, self.prebuilt, self.model_text, self.namespace = compile_cpp, ndjson, prebuilt, model_text, namespace


OPTION_SETS = [
    ("defaults", "cpp:\n  sourcesOutputDir: ../out_cpp\npython:\n  outputDir: ../out_py\nmatlab:\n  outputDir: ../out_matlab\njson:\n  outputDir: ../out_json\n", True),
    ("cpp-minimal", "cpp:\n  sourcesOutputDir: ../out_cpp\n  generateCMakeLists: false\n  generateNDJson: false\n  generateHDF5: false\n  overrideArrayHeader: vf_ndarray.h\n", False),
    ("cpp-ndjson-override", "cpp:\n  sourcesOutputDir: ../out_cpp\n  generateCMakeLists: false\n  generateNDJson: true\n  generateHDF5: false\n  overrideArrayHeader: vf_ndarray.h\npython:\n  outputDir: ../out_py\n", True),
    ("cpp-hdf5-only", "cpp:\n  sourcesOutputDir: ../out_cpp\n  generateCMakeLists: true\n  generateNDJson: false\n  generateHDF5: true\n", False),
    ("python-only", "python:\n  outputDir: ../out_py\n", True),
    ("matlab-json", "matlab:\n  outputDir: ../out_matlab\njson:\n  outputDir: ../out_json\n", True),
]


def matrix_packages(sc, rng, seed, n, quick):
    for i in range(n):
        g = modelgen.Gen(seed * 100213 + i, json_safe=True)
        # the regions the codec labs avoid are in scope here: they are accepted models
        g.avoid_bool_sequences = False
        g.avoid_py_array_regions = False
        g.simple_array_elements = False
        g.avoid_alias_inline_union = False
        g.bare_tparam_alias = True
        pkg = g.gen_package()
        for d in pkg.defs:
            if d["kind"] == "record" and d["fields"] and rng.random() < 0.4:
                d["computed"] = [("cOne", "1"), ("cRef", d["fields"][0][0])]
        for k, (oname, extra, ndj) in enumerate(OPTION_SETS):
            if quick and k not in (i % len(OPTION_SETS), (i + 2) % len(OPTION_SETS), 2):
                continue
            yield Job(f"matrix:{oname}", sc.path(f"m{i}-{oname}"), pkg=pkg, manifest_extra=extra,
                      compile_cpp=(oname == "cpp-ndjson-override") or (oname == "cpp-minimal" and not quick), ndjson=(oname == "cpp-ndjson-override"))


# Names the generated code uses itself (module aliases, parameters, locals, helper methods and classes) are in no reserved
# table unless the generator put them there. They are harvested from what the current generator emits for a probe package
# with neutral names, turned back into the member names that would be converted into them, and every one of them is then
# used as a field, computed field, enum / flags symbol, union tag and protocol step (directed: all of them on every tier).
PROBE_MODEL = """QqSym: !enum
  values: [qqa, qqb]
QqFlg: !flags
  values: [qqa, qqb]
QqRec: !record
  fields:
    qqa: int
    qqb: !array {items: float, dimensions: 2}
    qqc: datetime
    qqd: QqSym
    qqe: string*
    qqf: [int, string]
    qqg: int?
    qqh: string->int
    qqi: !vector {items: int, length: 2}
    qqj: QqFlg
    qqk: !array {items: QqSym}
    qql: [null, int, string]
  computedFields:
    qqm: qqa + 1
    qqn: size(qqb)
    qqo:
      !switch qqg:
        int i: i
        _: 0
    qqp:
      !switch qqf:
        int i: i as float64
        string s: 1.0
QqGen<QqT>: !record
  fields:
    qqa: QqT
    qqb: QqT[]
QqAlias: QqGen<int>
QqUnion: !union {qqa: int, qqb: string}
QqProto: !protocol
  sequence:
    qqa: int
    qqb: !stream {items: QqRec}
    qqc: QqAlias
    qqd: QqUnion?
    qqe: !stream {items: [int, QqRec]}
"""

RUNTIME_FIELD_TYPES = ["int", "!array {items: float, dimensions: 2}", "datetime", "QqSym", "string*", "[int, string]", "int?", "string->int",
                       "!vector {items: int, length: 2}", "date", "time", "QqRec", "!array {items: int, dimensions: [2]}", "complexdouble", "QqFlg", "float[]",
                       "[null, int, string]", "QqRec?", "QqSym*", "bool"]
RUNTIME_EXPRESSIONS = ['"qqx + 1"', '"size(qqarr)"', '"qqx as float64"', '"size(qqv)"', '"dimensionCount(qqarr)"', '"qqs"', '"qqx * 2 - 1"',
                       "\n      !switch qqo:\n        int i: i + qqx\n        _: qqx", "\n      !switch qqu:\n        int i: i - qqx\n        string s: qqx"]


DERIVED_SUFFIXES = ("Impl", "Converter", "Serializer", "UnionCase", "Reader", "Writer", "ReaderBase", "WriterBase")
# type names kept out of the directed list (they are in the witness of the open finding): an enum `ProtocolError` is shadowed in the
# generated Python protocols module by the runtime exception of that name. (A type `Union` used to hide the file-local C++ helpers
# ReadUnion / WriteUnion: fixed in 00c5aab, and back in the directed lists.)
FILE_LOCAL_HELPERS = ("ProtocolError",)


def _camel_lower(w):
    parts = [p for p in re.split(r"_+", w) if p]
    return (parts[0].lower() + "".join(p[:1].upper() + p[1:].lower() for p in parts[1:])) if parts else ""


def _strip_comments(text, fn):
    if fn.endswith(".py"):
        text = re.sub(r'"""[\s\S]*?"""', "", text)
        return re.sub(r"#[^\n]*", "", text)
    if fn.endswith(".m"):
        return re.sub(r"%[^\n]*", "", text)
    text = re.sub(r"/\*[\s\S]*?\*/", "", text)
    return re.sub(r"//[^\n]*", "", text)


def harvest_runtime_names(ybin, sc):
    """-> sorted member names (camelCase) whose converted form is an identifier the generated code of the probe package uses"""
    root = sc.path("probe")
    pdir = os.path.join(root, "pkg")
    os.makedirs(pdir, exist_ok=True)
    open(os.path.join(pdir, "_package.yml"), "w").write("namespace: QqProbe\n" + OPTION_SETS[2][1] + "matlab:\n  outputDir: ../out_matlab\n")
    open(os.path.join(pdir, "model.yml"), "w").write(PROBE_MODEL)
    rc, out, err = vlib.yardl(ybin, pdir, "generate")
    if rc != 0:
        return None, (out + err)[-2000:]
    ids = set()
    for dp, dns, fns in os.walk(root):
        rel = os.path.relpath(dp, root)
        if rel.startswith(os.path.join("out_cpp", "yardl")) or "+yardl" in rel or rel.startswith("pkg"):
            continue    # the static runtime has its own scopes; only its namespace / module names reach generated code (and those occur there)
        for fn in fns:
            if not fn.endswith((".py", ".h", ".cc", ".m")) or (fn.startswith("_") and fn != "__init__.py") or fn == "yardl_types.py":
                continue
            ids |= set(re.findall(r"[A-Za-z_][A-Za-z0-9_]*", _strip_comments(open(os.path.join(dp, fn), errors="replace").read(), fn)))
    cands = set()
    for i in ids:
        if "qq" in i.lower():
            continue
        if re.fullmatch(r"_*[a-z][a-z0-9_]*", i):
            cands.add(_camel_lower(i))                               # snake_case members (fields, Python computed fields, step methods)
        if re.fullmatch(r"[A-Z][A-Za-z0-9]*", i):
            cands.add(i[0].lower() + i[1:])                   # PascalCase members (C++ computed fields, union case classes)
        if re.fullmatch(r"k[A-Z][A-Za-z0-9]*", i):
            cands.add(i[1].lower() + i[2:])                   # C++ enum values
        if re.fullmatch(r"[A-Z][A-Z0-9_]*", i):
            cands.add(_camel_lower(i.lower()))                       # Python enum values
    seen, names = set(), []
    for c in sorted(cands):
        key = c.lower()
        if re.fullmatch(r"[a-z][a-zA-Z0-9]{0,40}", c) and key not in seen:
            seen.add(key)
            names.append(c)
    tnames = sorted(i for i in ids if re.fullmatch(r"[A-Z][A-Za-z0-9]{0,40}", i) and "qq" not in i.lower())
    # a name that is another name of the same list plus a suffix the generator appends (step `x` has a C++ method XImpl, type `X` a
    # Python class XConverter) collides with what is derived from that other name, and a type named like a file-local helper of the
    # generated C++ hides it: one open finding with its own witness (`witness:derived-names`), kept out of the directed lists
    names = [n for n in names if not any(n.endswith(sfx) and n[:-len(sfx)] in seen for sfx in DERIVED_SUFFIXES)]
    tset = set(tnames)
    tnames = [n for n in tnames if not any(n.endswith(sfx) and n[:-len(sfx)] in tset for sfx in DERIVED_SUFFIXES) and n not in FILE_LOCAL_HELPERS]
    return (names, tnames), ""


def runtime_type_model(chunk, shift=0):
    q = json.dumps      # `True`, `False`, ... are names like any other once quoted
    t, steps = [], []
    for i, n in enumerate(chunk):
        k = (i + shift) % 4
        if k == 0:
            t.append(f"{q(n)}: !record\n  fields:\n    qqa: int\n    qqb: string?\n")
        elif k == 1:
            t.append(f"{q(n)}: !enum\n  values: [qqa, qqb]\n")
        elif k == 2:
            t.append(f"{q(n)}: !union {{qqa: int, qqb: string*}}\n")
        else:
            t.append(f"{q(n)}: !array {{items: float, dimensions: 2}}\n")
        steps.append(f"    s{i}: " + (q(n) if i % 2 else "!stream {items: " + q(n) + "}") + "\n")
    t.append("QqG<QqT>: !record\n  fields:\n    qqa: QqT\n    qqb: QqT[]\n")
    t.append("QqHolds: !record\n  fields:\n" + "".join(f"    f{i}: {q(n)}\n" for i, n in enumerate(chunk)) + "    g: QqG<int>\n")
    t.append("QqSteps: !protocol\n  sequence:\n" + "".join(steps) + "    h: QqHolds\n")
    return "\n".join(t)


def runtime_model(chunk):
    q = json.dumps      # `null`, `true`, `on`, ... are names like any other once quoted
    ft = lambda i: RUNTIME_FIELD_TYPES[i % len(RUNTIME_FIELD_TYPES)]
    t = ["QqSym: !enum\n  values: [" + ", ".join(q(w) for w in chunk) + "]\n",
         "QqFlg: !flags\n  base: uint64\n  values: [" + ", ".join(q(w) for w in chunk[:60]) + "]\n",
         "QqRec: !record\n  fields:\n    qqa: int\n",
         "QqFields: !record\n  fields:\n" + "".join(f"    {q(w)}: {ft(i) if ft(i)[0] in '![' else q(ft(i))}\n" for i, w in enumerate(chunk)),
         "QqComputed: !record\n  fields:\n    qqx: int\n    qqarr: float[]\n    qqv: int*\n    qqo: int?\n    qqu: [int, string]\n    qqs: string\n  computedFields:\n"
         + "".join(f"    {q(w)}: {RUNTIME_EXPRESSIONS[i % len(RUNTIME_EXPRESSIONS)]}\n" for i, w in enumerate(chunk)),
         "QqTags: !union\n" + "".join(f"  {q(w)}: !vector {{items: int, length: {i + 1}}}\n" for i, w in enumerate(chunk)),
         "QqHolds: !record\n  fields:\n    t: QqTags\n    f: QqFields\n    s: QqSym\n    c: QqComputed\n",
         "QqSteps: !protocol\n  sequence:\n" + "".join(f"    {q(w)}: " + ("int" if i % 2 else "!stream {items: int}") + "\n" for i, w in enumerate(chunk))
         + "    qqholds: !stream {items: QqHolds}\n"]
    return "\n".join(t)


def runtime_name_packages(sc, ybin, report):
    harvested, err = harvest_runtime_names(ybin, sc)
    names, tnames = harvested if harvested is not None else (None, None)
    if names is None:
        report.violation("harness:probe-package", {"theorem_or_correspondence": "C08 probe package for the generator's own identifiers", "output": err}, "no-failing-input-found")
        return
    report.count("names.runtime-identifiers-harvested", len(names))
    report.count("names.runtime-type-identifiers-harvested", len(tnames))
    report.extra["runtime_names"] = names
    report.extra["runtime_type_names"] = tnames
    for ci in range(0, len(tnames), 40):
        yield Job(f"names:runtime-types-{ci // 40}", sc.path(f"n-runtime-t{ci // 40}"), model_text=runtime_type_model(tnames[ci:ci + 40]), manifest_extra=OPTION_SETS[2][1],
                  compile_cpp=True, ndjson=True, namespace="RtNames", exercise=True)
    size = 45
    for ci in range(0, len(names), size):
        chunk = names[ci:ci + size]
        yield Job(f"names:runtime-{ci // size}", sc.path(f"n-runtime-{ci // size}"), model_text=runtime_model(chunk), manifest_extra=OPTION_SETS[2][1],
                  compile_cpp=True, ndjson=True, namespace="RtNames", exercise=True)


def name_packages(sc, reserved, rng, quick):
    """reserved words of every target in every name position"""
    P = lambda n: ("prim", n)
    allw = sorted({camel(w) for lang in reserved for w in reserved[lang] if re.fullmatch(r"[A-Za-z_][A-Za-z0-9_]*", w)})
    members = [w for w in allw if re.fullmatch(r"[a-z][a-zA-Z0-9]{0,63}", w)]
    rng.shuffle(members)
    chunks = [members[i:i + 40] for i in range(0, len(members), 40)]
    if quick:
        chunks = chunks[:2]
    for ci, chunk in enumerate(chunks):
        pkg = modelgen.Package("Names")
        pkg.defs.append({"kind": "record", "name": "Fields", "tparams": [], "fields": [(w, P("int32")) for w in chunk]})
        pkg.defs.append({"kind": "enum", "name": "Symbols", "flags": False, "base": None, "auto": True, "values": [(w, i) for i, w in enumerate(chunk)]})
        pkg.defs.append({"kind": "enum", "name": "FlagSymbols", "flags": True, "base": "uint64", "auto": True, "values": [(w, 1 << i) for i, w in enumerate(chunk[:40])]})
        pkg.defs.append({"kind": "record", "name": "Computed", "tparams": [], "fields": [("x", P("int32"))], "computed": [(w + "Z" if w == "x" else w, "x + 1") for w in chunk[:20]]})
        pkg.defs.append({"kind": "alias", "name": "Tags", "tparams": [], "type": ("union", True, [(w, ("vec", P("int32"), i + 1)) for i, w in enumerate(chunk[:12])])})
        pkg.defs.append({"kind": "record", "name": "HoldsTags", "tparams": [], "fields": [("t", ("named", "Tags", [])), ("f", ("named", "Fields", [])), ("s", ("named", "Symbols", []))]})
        pkg.defs.append({"kind": "protocol", "name": "Steps", "steps": [(w, P("int32"), i % 2 == 0) for i, w in enumerate(chunk[:25])] + [("holds", ("named", "HoldsTags", []), True)]})
        yield Job(f"names:members-{ci}", sc.path(f"n-members-{ci}"), pkg=pkg, manifest_extra=OPTION_SETS[2][1], compile_cpp=True, ndjson=True, namespace="Names")
    types = sorted({w[:1].upper() + w[1:] for w in allw if re.fullmatch(r"[A-Za-z][a-zA-Z0-9]{0,62}", w)})
    types = [t for t in types if t.lower() not in ("int8", "int16", "int32", "int64", "uint8", "uint16", "uint32", "uint64", "float32", "float64", "bool", "string", "size",
                                                    "date", "time", "datetime", "complexfloat32", "complexfloat64", "int", "uint", "long", "ulong", "float", "double", "byte",
                                                    "complexfloat", "complexdouble")]
    rng.shuffle(types)
    tchunks = [types[i:i + 30] for i in range(0, len(types), 30)]
    if quick:
        tchunks = tchunks[:1]
    for ci, chunk in enumerate(tchunks):
        pkg = modelgen.Package("TypeNames")
        for i, t in enumerate(chunk):
            kind = i % 4
            if kind == 0:
                pkg.defs.append({"kind": "record", "name": t, "tparams": [], "fields": [("a", P("int32"))]})
            elif kind == 1:
                pkg.defs.append({"kind": "enum", "name": t, "flags": False, "base": None, "auto": True, "values": [("a", 0), ("b", 1)]})
            elif kind == 3:
                pkg.defs.append({"kind": "alias", "name": t, "tparams": [], "type": ("union", True, [("ua", P("int32")), ("ub", P("string"))])})
            else:
                pkg.defs.append({"kind": "alias", "name": t, "tparams": [], "type": ("vec", P("float32"), None)})
        pkg.defs.append({"kind": "protocol", "name": "UsesThem", "steps": [(f"s{i}", ("named", t, []), i % 2 == 0) for i, t in enumerate(chunk)]})
        yield Job(f"names:types-{ci}", sc.path(f"n-types-{ci}"), pkg=pkg, manifest_extra=OPTION_SETS[2][1], compile_cpp=True, ndjson=True, namespace="TypeNames")
    # capitalised words that mean something in a target (Python's None / True / False, C macros, typing names), each as every kind of definition
    special = ["None", "True", "False", "Any", "List", "Optional", "Enum", "Self", "Type", "Union", "Generic", "Protocol"]
    for r in range(4):
        pkg = modelgen.Package("SpecialNames")
        for i, t in enumerate(special):
            kind = (i + r) % 4
            if kind == 0:
                pkg.defs.append({"kind": "record", "name": t, "tparams": [], "fields": [("a", P("int32"))]})
            elif kind == 1:
                pkg.defs.append({"kind": "enum", "name": t, "flags": False, "base": None, "auto": True, "values": [("a", 0), ("b", 1)]})
            elif kind == 3:
                pkg.defs.append({"kind": "alias", "name": t, "tparams": [], "type": ("union", True, [("ua", P("int32")), ("ub", P("string"))])})
            else:
                pkg.defs.append({"kind": "alias", "name": t, "tparams": [], "type": ("vec", P("float32"), None)})
        pkg.defs.append({"kind": "protocol", "name": "UsesThem", "steps": [(f"s{i}", ("named", t, []), i % 2 == 0) for i, t in enumerate(special)]})
        yield Job(f"names:special-types-{r}", sc.path(f"n-special-{r}"), pkg=pkg, manifest_extra=OPTION_SETS[2][1], compile_cpp=True, ndjson=True, namespace="SpecialNames")
    # names that are macros of the C standard library headers the generated C++ includes (not reserved words: a known finding, see known_findings.json)
    pkg = modelgen.Package("MacroNames")
    pkg.defs.append({"kind": "record", "name": "NULL", "tparams": [], "fields": [("a", P("int32"))]})
    pkg.defs.append({"kind": "enum", "name": "EOF", "flags": False, "base": None, "auto": True, "values": [("a", 0), ("b", 1)]})
    pkg.defs.append({"kind": "record", "name": "Status", "tparams": [], "fields": [("errno", P("int32"))]})
    pkg.defs.append({"kind": "protocol", "name": "UsesThem", "steps": [("n", ("named", "NULL", []), False), ("e", ("named", "EOF", []), True), ("s", ("named", "Status", []), False)]})
    yield Job("witness:standard-macro-names", sc.path("n-macros"), pkg=pkg, manifest_extra=OPTION_SETS[2][1], compile_cpp=True, ndjson=True, namespace="MacroNames")
    # names that differ only in capitalization become one member after case conversion: either the package is rejected, or
    # the generated code must still be well formed
    pairs = [("fooBar", "fooBAR"), ("aB", "a_b"), ("xY1", "xy1") if False else ("valueOne", "valueONE")]
    for k, (a, b) in enumerate(pairs):
        if not re.fullmatch(r"[a-z][a-zA-Z0-9]*", a) or not re.fullmatch(r"[a-z][a-zA-Z0-9]*", b):
            continue
        pkg = modelgen.Package("Collide")
        pkg.defs.append({"kind": "record", "name": "R", "tparams": [], "fields": [(a, P("int32")), (b, P("string"))]})
        pkg.defs.append({"kind": "protocol", "name": "P", "steps": [("s", ("named", "R", []), True)]})
        yield Job(f"names:collide-fields-{k}", sc.path(f"n-collide-f{k}"), pkg=pkg, manifest_extra=OPTION_SETS[2][1], compile_cpp=True, ndjson=True, namespace="Collide")
        pkg = modelgen.Package("Collide")
        pkg.defs.append({"kind": "protocol", "name": "P", "steps": [(a, P("int32"), False), (b, P("string"), True)]})
        yield Job(f"names:collide-steps-{k}", sc.path(f"n-collide-s{k}"), pkg=pkg, manifest_extra=OPTION_SETS[2][1], compile_cpp=True, ndjson=True, namespace="Collide")
        pkg = modelgen.Package("Collide")
        pkg.defs.append({"kind": "enum", "name": "E", "flags": False, "base": None, "auto": False, "values": [(a, 0), (b, 1)]})
        pkg.defs.append({"kind": "record", "name": "R", "tparams": [], "fields": [("x", P("int32"))], "computed": [(a, "x + 1"), (b, "x + 2")]})
        pkg.defs.append({"kind": "protocol", "name": "P", "steps": [("e", ("named", "E", []), False), ("r", ("named", "R", []), True)]})
        yield Job(f"names:collide-symbols-computed-{k}", sc.path(f"n-collide-e{k}"), pkg=pkg, manifest_extra=OPTION_SETS[2][1], compile_cpp=True, ndjson=True, namespace="Collide")
    # a field named like the escaped form of a reserved field name next to that field (class / classField / classFieldField: one C++ member
    # name before 017b1ad), same for steps and computed fields
    for k, w in enumerate(["class", "delete", "union"] if not quick else ["class"]):
        pkg = modelgen.Package("Collide")
        pkg.defs.append({"kind": "record", "name": "R", "tparams": [], "fields": [(w, P("int32")), (w + "Field", P("string")), (w + "FieldField", P("float32")), ("x", P("int32")), ("xField", P("int32"))],
                         "computed": [(w + "Value", "x + 1")]})
        pkg.defs.append({"kind": "protocol", "name": "P", "steps": [(w, ("named", "R", []), True), (w + "Field", P("int32"), False)]})
        yield Job(f"names:collide-suffixed-{k}", sc.path(f"n-collide-x{k}"), pkg=pkg, manifest_extra=OPTION_SETS[2][1], compile_cpp=True, ndjson=True, namespace="Collide")
    for ns in (["Class", "Std", "Numpy", "Yardl", "Namespace"] if not quick else ["Class", "Yardl"]):
        pkg = modelgen.Package(ns)
        pkg.defs.append({"kind": "record", "name": "R", "tparams": [], "fields": [("a", P("int32"))]})
        pkg.defs.append({"kind": "protocol", "name": "P", "steps": [("a", ("named", "R", []), True)]})
        yield Job(f"names:namespace-{ns}", sc.path(f"n-ns-{ns}"), pkg=pkg, manifest_extra=OPTION_SETS[2][1], compile_cpp=True, ndjson=True, namespace=ns)


LITERALS_MODEL = """R: !record
  fields:
    a: int
    f: double
  computedFields:
    l0: 1. + f
    l1: .5 * f
    l2: 1.e3 + f
    l3: .5e-3 + f
    l4: 1e3 + f
    l5: 1e+3 + f
    l6: 0x1F + a
    l7: 0XaB + a
    l8: 007 + a
    l9: 12 + a
    l10: 18446744073709551615 + 0
    l11: 1.5e300 * f
    s0: '"a\\"b"'
    s1: "'it'"
P: !protocol
  sequence:
    r: R
"""


def literal_packages(sc):
    """every spelling of a literal the expression lexer accepts (a float without digits before or after the point, exponents, hexadecimal, leading
    zeros, both quote styles), with every target switched on - the JSON dump included"""
    yield Job("literals:all-targets", sc.path("lit-all"), model_text=LITERALS_MODEL, manifest_extra=OPTION_SETS[0][1], namespace="Lit")
    yield Job("literals:cpp-compiled", sc.path("lit-cpp"), model_text=LITERALS_MODEL, manifest_extra=OPTION_SETS[2][1] + "json:\n  outputDir: ../out_json\n", compile_cpp=True, ndjson=True, namespace="Lit")
    yield Job("literals:matlab-json", sc.path("lit-mj"), model_text=LITERALS_MODEL, manifest_extra=OPTION_SETS[5][1], namespace="Lit")


def cross_packages(sc, quick):
    """every kind of definition x every position that can hold a type, with the definitions in an imported package and in the
    package itself (directed; runs on every tier). The generated Python must import and every record must default-construct."""
    P = lambda n: ("prim", n)
    N = lambda n, *a: ("named", n, list(a))

    def lib_defs():
        return [
            {"kind": "record", "name": "XRec", "tparams": [], "fields": [("a", P("int32")), ("b", P("string"))]},
            {"kind": "enum", "name": "XEnum", "flags": False, "base": None, "auto": True, "values": [("one", 0), ("two", 1)]},
            {"kind": "enum", "name": "XFlags", "flags": True, "base": "uint16", "auto": True, "values": [("fa", 1), ("fb", 2)]},
            {"kind": "alias", "name": "XInt", "tparams": [], "type": P("int32")},
            {"kind": "alias", "name": "XStr", "tparams": [], "type": P("string")},
            {"kind": "alias", "name": "XUnion", "tparams": [], "type": ("union", False, [(None, P("int32")), (None, P("string"))])},
            {"kind": "alias", "name": "XUnionN", "tparams": [], "type": ("union", True, [(None, P("int32")), (None, P("string"))])},
            {"kind": "alias", "name": "XTagged", "tparams": [], "type": ("union", False, [("num", P("float64")), ("rec", N("XRec"))])},
            {"kind": "alias", "name": "XRecFirst", "tparams": [], "type": ("union", False, [(None, N("XRec")), (None, P("int32"))])},
            {"kind": "alias", "name": "XEnumFirst", "tparams": [], "type": ("union", False, [(None, N("XEnum")), (None, P("string"))])},
            {"kind": "alias", "name": "XGUnion", "tparams": ["T"], "type": ("union", False, [("code", P("uint16")), ("value", ("tparam", "T"))])},
            {"kind": "alias", "name": "XOpt", "tparams": [], "type": ("opt", P("int32"))},
            {"kind": "alias", "name": "XGOpt", "tparams": ["T"], "type": ("opt", ("tparam", "T"))},
            {"kind": "alias", "name": "XVec", "tparams": [], "type": ("vec", P("float32"), None)},
            {"kind": "alias", "name": "XVec3", "tparams": [], "type": ("vec", P("float32"), 3)},
            {"kind": "alias", "name": "XGVec", "tparams": ["T"], "type": ("vec", ("tparam", "T"), None)},
            {"kind": "alias", "name": "XArr", "tparams": [], "type": ("arr", P("float32"), ("rank", 2, None))},
            {"kind": "alias", "name": "XArrF", "tparams": [], "type": ("arr", P("int16"), ("fixed", [2, 3], None))},
            {"kind": "alias", "name": "XImg", "tparams": ["T"], "type": ("arr", ("tparam", "T"), ("dyn",))},
            {"kind": "alias", "name": "XMap", "tparams": [], "type": ("map", P("string"), P("int32"))},
            {"kind": "alias", "name": "XGMap", "tparams": ["T"], "type": ("map", P("string"), ("tparam", "T"))},
            {"kind": "record", "name": "XPair", "tparams": ["A", "B"], "fields": [("first", ("tparam", "A")), ("second", ("tparam", "B"))]},
            {"kind": "record", "name": "XBox", "tparams": ["T"], "fields": [("v", ("tparam", "T")), ("vs", ("vec", ("tparam", "T"), None)), ("o", ("opt", ("tparam", "T")))]},
            {"kind": "record", "name": "XArrOpt", "tparams": ["T"], "fields": [("f", ("opt", ("arr", ("tparam", "T"), ("fixed", [3], None))))]},
            {"kind": "alias", "name": "XPairIS", "tparams": [], "type": N("XPair", P("int32"), P("string"))},
            {"kind": "alias", "name": "XUnion2", "tparams": [], "type": N("XUnion")},
            {"kind": "alias", "name": "XRec2", "tparams": [], "type": N("XRec")},
            {"kind": "alias", "name": "XEnum2", "tparams": [], "type": N("XEnum")},
        ]

    def uses(pre):
        L = lambda n, *a: ("named", pre + n, list(a))
        things = [("rec", L("XRec"), "plain"), ("enum", L("XEnum"), "plain"), ("flags", L("XFlags"), "plain"), ("int", L("XInt"), "plain"), ("str", L("XStr"), "plain"),
                  ("union", L("XUnion"), "union"), ("unionN", L("XUnionN"), "nullable"), ("tagged", L("XTagged"), "union"), ("recFirst", L("XRecFirst"), "union"),
                  ("enumFirst", L("XEnumFirst"), "union"), ("gunion", L("XGUnion", P("string")), "union"), ("gunionRec", L("XGUnion", L("XRec")), "union"),
                  ("opt", L("XOpt"), "nullable"), ("gopt", L("XGOpt", L("XRec")), "nullable"), ("vec", L("XVec"), "seq"), ("vec3", L("XVec3"), "fixedseq"),
                  ("gvec", L("XGVec", L("XEnum")), "seq"), ("arr", L("XArr"), "seq"), ("arrF", L("XArrF"), "fixedseq"), ("img", L("XImg", P("float64")), "seq"),
                  ("map", L("XMap"), "seq"), ("gmap", L("XGMap", L("XRec")), "seq"), ("pair", L("XPair", L("XInt"), L("XUnion")), "plain"),
                  ("box", L("XBox", L("XEnum")), "plain"), ("boxRec", L("XBox", L("XRec2")), "plain"), ("pairIS", L("XPairIS"), "plain"), ("union2", L("XUnion2"), "union"),
                  ("rec2", L("XRec2"), "plain"), ("enum2", L("XEnum2"), "plain"),
                  # a generic whose parameter is an array element type, instantiated with itself
                  ("arrOpt", L("XArrOpt", P("uint64")), "plain"), ("arrOptNested", L("XArrOpt", L("XArrOpt", P("uint64"))), "plain")]
        defs = []
        defs.append({"kind": "record", "name": "UBox", "tparams": ["T"], "fields": [("v", ("tparam", "T"))]})
        defs.append({"kind": "record", "name": "UDirect", "tparams": [], "fields": [(n, t) for n, t, _ in things]})
        defs.append({"kind": "record", "name": "UOptional", "tparams": [], "fields": [(n, ("opt", t)) for n, t, k in things if k not in ("nullable",)]})
        defs.append({"kind": "record", "name": "UVector", "tparams": [], "fields": [(n, ("vec", t, None)) for n, t, k in things]})
        defs.append({"kind": "record", "name": "UFixedVector", "tparams": [], "fields": [(n, ("vec", t, 2)) for n, t, k in things]})
        defs.append({"kind": "record", "name": "UMapValue", "tparams": [], "fields": [(n, ("map", P("string"), t)) for n, t, k in things]})
        defs.append({"kind": "record", "name": "UArray", "tparams": [], "fields": [(n, ("arr", t, ("rank", 1, None))) for n, t, k in things if k in ("plain", "fixedseq")]})
        defs.append({"kind": "record", "name": "UUnionCase", "tparams": [], "fields": [(n, ("union", False, [("mine" + n[:1].upper() + n[1:], P("bool")), ("theirs" + n[:1].upper() + n[1:], t)])) for n, t, k in things if k in ("plain", "seq", "fixedseq")]})
        defs.append({"kind": "record", "name": "UNullableUnionCase", "tparams": [], "fields": [(n, ("union", True, [("my" + n[:1].upper() + n[1:], P("bool")), ("their" + n[:1].upper() + n[1:], t)])) for n, t, k in things if k in ("plain", "seq", "fixedseq")]})
        defs.append({"kind": "record", "name": "ULocalGenericArg", "tparams": [], "fields": [(n, ("named", "UBox", [t])) for n, t, k in things]})
        defs.append({"kind": "record", "name": "UTheirGenericArg", "tparams": [], "fields": [(n, L("XPair", t, P("int32"))) for n, t, k in things]})
        for n, t, k in things:
            defs.append({"kind": "alias", "name": "UAlias" + n[:1].upper() + n[1:], "tparams": [], "type": t})
        defs.append({"kind": "record", "name": "UThroughAlias", "tparams": [], "fields": [(n, ("named", "UAlias" + n[:1].upper() + n[1:], [])) for n, t, k in things]})
        defs.append({"kind": "record", "name": "UGenericHolder", "tparams": ["T"], "fields": [("t", ("tparam", "T"))] + [(n, t) for n, t, k in things[:12]]})
        steps = [(n, t, False) for n, t, k in things] + [(n + "S", t, True) for n, t, k in things]
        steps += [("all" + d["name"], ("named", d["name"], []), i % 2 == 0) for i, d in enumerate(defs) if d["kind"] == "record" and not d["tparams"]]
        steps.append(("holder", ("named", "UGenericHolder", [L("XUnion")]), True))
        defs.append({"kind": "protocol", "name": "UProtocol", "steps": steps})
        return defs

    def lib_protocol(tag):
        # a protocol of the library itself: its steps hold inline unions that no definition of the library uses
        # (the importing package never opens this protocol, but its generated code must still be importable)
        U = lambda *cases: ("union", False, [(None, c) for c in cases])
        return {"kind": "protocol", "name": "XProtocol" + tag, "steps": [
            ("u1", U(N("XRec"), P("float64")), False), ("u2", ("union", True, [(None, N("XEnum")), (None, P("string"))]), True),
            ("u3", ("vec", U(P("uint8"), N("XFlags")), None), False), ("u4", ("map", P("string"), U(N("XRec"), N("XEnum"))), True),
            ("u5", ("union", False, [("tA" + tag, P("bool")), ("tB" + tag, N("XVec"))]), True), ("plain", N("XRec"), False)]}

    deep = modelgen.Package("CrossDeep")
    deep.defs = [{"kind": "record", "name": "XRec", "tparams": [], "fields": [("a", P("int32"))]},
                 {"kind": "enum", "name": "XEnum", "flags": False, "base": None, "auto": True, "values": [("one", 0), ("two", 1)]},
                 {"kind": "enum", "name": "XFlags", "flags": True, "base": None, "auto": True, "values": [("fa", 1), ("fb", 2)]},
                 {"kind": "alias", "name": "XVec", "tparams": [], "type": ("vec", P("float32"), None)},
                 lib_protocol("Deep")]
    imp = modelgen.Package("CrossLib")
    imp.imports.append(deep)
    imp.defs = lib_defs() + [lib_protocol("Lib"), {"kind": "alias", "name": "XDeepRec", "tparams": [], "type": ("named", "CrossDeep.XRec", [])}]
    pkg = modelgen.Package("CrossApp")
    pkg.imports.append(imp)
    pkg.defs = uses("CrossLib.")
    yield Job("cross:imported", sc.path("cross-imported"), pkg=pkg, manifest_extra=OPTION_SETS[2][1], compile_cpp=True, ndjson=True, namespace="CrossApp")
    one = modelgen.Package("CrossOne")
    one.defs = lib_defs() + [lib_protocol("One")] + uses("")
    yield Job("cross:same-namespace", sc.path("cross-one"), pkg=one, manifest_extra=OPTION_SETS[2][1], compile_cpp=not quick, ndjson=True, namespace="CrossOne")


DERIVED_NAMES_MODEL = """ProtocolError: !enum
  values: [qqa, qqb]
Optional: !record
  fields:
    qqa: int
OptionalConverter: !record
  fields:
    qqa: int
Same: !record
  fields:
    x: int
  computedFields:
    same: x + 1
QqSteps: !protocol
  sequence:
    close: int
    closeImpl: int
    e: ProtocolError
    o: Optional
    oc: OptionalConverter
    s: Same
"""


# every position that can hold a type refers to a definition that is declared *after* its user and is referenced from that
# one position only (so nothing else orders it): the emission order of the generated code must still put it first
USE_BEFORE_DECLARATION_MODEL = """POrder: !protocol
  sequence:
    a: UsesAll
    step: OnlyStep
    items: !stream {items: OnlyItem}
    en: EnumWithAliasBase
    computed: WithComputed
    viaGenericAlias: GAlias<OnlyGArg>
UsesAll: !record
  fields:
    direct: OnlyDirect
    optional: OnlyOptional?
    vector: OnlyVector*
    fixedVector: OnlyFixed*3
    mapKey: OnlyKey->int
    mapKeyLong: !map {keys: OnlyKeyLong, values: string}
    mapKeyOfRecords: OnlyKeyRec->Payload
    mapValue: string->OnlyValue
    arrayElem: OnlyArr[2]
    dynArrayElem: OnlyDyn[]
    rankArrayElem: OnlyRank[,]
    unionCase: [int, OnlyCase]
    nullableUnionCase: [null, string, OnlyNCase]
    genericArg: Holder<OnlyArg>
    nestedArg: Holder<Holder<OnlyNested>>
    throughAlias: AliasOfOnly
    recordTarget: OnlyRec
    enumTarget: OnlyEnum
    vectorOfRecords: OnlyRecV*
EnumWithAliasBase: !enum
  base: OnlyBase
  values: [a, b]
Holder<T>: !record
  fields:
    v: T
GAlias<T>: T->Holder<T>
AliasOfOnly: OnlyTarget*
WithComputed: !record
  fields:
    x: OnlyComputed
    m: OnlyCKey->int
  computedFields:
    y: x + 1
    n: size(m)
Payload: !record
  fields:
    p: int
OnlyStep: uint16
OnlyItem: float
OnlyDirect: int
OnlyOptional: string
OnlyVector: double
OnlyFixed: uint8
OnlyKey: string
OnlyKeyLong: uint32
OnlyKeyRec: long
OnlyValue: float
OnlyArr: int16
OnlyDyn: float
OnlyRank: double
OnlyCase: string
OnlyNCase: uint64
OnlyArg: int8
OnlyNested: string
OnlyTarget: ulong
OnlyBase: uint8
OnlyComputed: int
OnlyCKey: string
OnlyGArg: string
OnlyRec: !record
  fields:
    q: int
OnlyRecV: !record
  fields:
    q: string
OnlyEnum: !enum
  values: [one, two]
"""


def known_finding_witnesses(sc):
    """minimal packages for the open findings of this property: they run on every tier"""
    P = lambda n: ("prim", n)
    pkg = modelgen.Package("Kf1")
    pkg.defs.append({"kind": "alias", "name": "GA", "tparams": ["T"], "type": ("tparam", "T")})
    pkg.defs.append({"kind": "alias", "name": "A", "tparams": [], "type": ("named", "GA", [P("int32")])})
    pkg.defs.append({"kind": "protocol", "name": "P", "steps": [("a", ("named", "A", []), False)]})
    yield Job("witness:bare-type-parameter-alias", sc.path("kf-typevar"), pkg=pkg, manifest_extra=OPTION_SETS[4][1], namespace="Kf1")
    imp = modelgen.Package("Kf2Imp")
    imp.defs.append({"kind": "alias", "name": "A", "tparams": [], "type": ("arr", ("union", True, [("ua", P("int32")), ("ub", P("float64"))]), ("fixed", [2], None))})
    pkg = modelgen.Package("Kf2")
    pkg.imports.append(imp)
    pkg.defs.append({"kind": "protocol", "name": "P", "steps": [("a", ("named", "Kf2Imp.A", []), False)]})
    yield Job("witness:inline-union-in-imported-alias", sc.path("kf-import"), pkg=pkg, manifest_extra=OPTION_SETS[4][1], namespace="Kf2")
    pkg = modelgen.Package("Kf4")
    pkg.defs.append({"kind": "record", "name": "R", "tparams": [], "fields": [("flags", ("vec", P("bool"), None))]})
    pkg.defs.append({"kind": "protocol", "name": "P", "steps": [("a", ("named", "R", []), False), ("bits", P("bool"), True)]})
    yield Job("witness:vector-of-bool", sc.path("kf-vbool"), pkg=pkg, manifest_extra=OPTION_SETS[1][1], compile_cpp=True, ndjson=False, namespace="Kf4")
    kf3 = modelgen.Package("Kf3")
    kf3.defs.append({"kind": "record", "name": "G", "tparams": ["T"], "fields": [("a", ("arr", ("arr", ("opt", ("tparam", "T")), ("fixed", [2], None)), ("rank", 1, None)))]})
    kf3.defs.append({"kind": "protocol", "name": "P", "steps": [("a", ("vec", ("named", "G", [P("int32")]), None), False)]})
    yield Job("witness:derived-names", sc.path("kf-derived"), model_text=DERIVED_NAMES_MODEL, manifest_extra=OPTION_SETS[2][1], compile_cpp=True, ndjson=True, namespace="Kf5")
    yield Job("cross:use-before-declaration", sc.path("use-before-decl"), model_text=USE_BEFORE_DECLARATION_MODEL, manifest_extra=OPTION_SETS[2][1], compile_cpp=True, ndjson=True,
              namespace="OrderNs", exercise=True)
    pkg = modelgen.Package("PairAliases")
    pkg.defs.append({"kind": "record", "name": "Pair", "tparams": ["A", "B"], "fields": [("first", ("tparam", "A")), ("second", ("tparam", "B"))]})
    pkg.defs.extend(modelgen.pair_alias_defs())
    yield Job("cross:generic-aliases-of-a-generic-record", sc.path("pair-aliases"), pkg=pkg, manifest_extra=OPTION_SETS[2][1], compile_cpp=True, ndjson=True, namespace="PairAliases", exercise=True)
    yield Job("witness:open-generic-union-with-generic-case", sc.path("kf-gunion"), model_text=("Pair<T>: !record\n  fields:\n    a: T\n    b: T\nG<T>: !record\n  fields:\n    u: !union {p: Pair<T>, s: string}\n"
                                                                                               "P: !protocol\n  sequence:\n    g: G<int>\n"),
              manifest_extra=OPTION_SETS[2][1], compile_cpp=True, ndjson=True, namespace="Kf6")
    yield Job("witness:type-parameter-only-in-array", sc.path("kf-array"), pkg=kf3, manifest_extra=OPTION_SETS[4][1], namespace="Kf3")


def init_scaffolds(sc, ybin, quick):
    for name in (["MyPkg", "Class"] if quick else ["MyPkg", "A", "Abc123", "Class", "Std", "Yardl", "Numpy", "Model"]):
        root = sc.path(f"init-{name}")
        os.makedirs(root, exist_ok=True)
        p = subprocess.run([ybin, "init", name], cwd=root, stdout=subprocess.PIPE, stderr=subprocess.PIPE)
        yield Job(f"init:{name}", root, prebuilt={"rc": p.returncode, "out": (p.stdout + p.stderr).decode(errors="replace")}, compile_cpp=True, ndjson=True, namespace=name)


def build_job(ybin, j):
    res = {"stage": "write"}
    try:
        os.makedirs(j.root, exist_ok=True)
        if j.prebuilt is not None:
            if j.prebuilt["rc"] != 0:
                return {"stage": "init-rejected", "out": j.prebuilt["out"]}
            # locate the scaffold's package directory (the directory holding _package.yml)
            pdir = None
            for dp, _, fns in os.walk(j.root):
                if "_package.yml" in fns:
                    pdir = dp
            if pdir is None:
                return {"stage": "init", "out": "no _package.yml written\n" + j.prebuilt["out"]}
            man = open(os.path.join(pdir, "_package.yml")).read()
            res["manifest"] = man
            if "overrideArrayHeader" not in man and re.search(r"^cpp:\n", man, re.M):
                # xtensor is not installed here: compile the scaffold against the stand-in array header
                man = re.sub(r"^cpp:\n", "cpp:\n  overrideArrayHeader: vf_ndarray.h\n  generateHDF5: false\n", man, count=1, flags=re.M)
                open(os.path.join(pdir, "_package.yml"), "w").write(man)
        elif j.model_text is not None:
            pdir = os.path.join(j.root, "pkg_" + j.namespace)
            os.makedirs(pdir, exist_ok=True)
            open(os.path.join(pdir, "_package.yml"), "w").write(f"namespace: {j.namespace}\n" + j.manifest_extra)
            open(os.path.join(pdir, "model.yml"), "w").write(j.model_text)
        else:
            pdir = vlib.write_package(j.root, j.pkg, random.Random(4), cpp=False, python=False, js=False, extra_manifest=j.manifest_extra.rstrip("\n"))
        rc, out, err = vlib.yardl(ybin, pdir, "generate")
        res.update(stage="generate", rc=rc, out=(out + err)[-3000:], pkgdir=pdir)
        if rc != 0:
            return res
        # locate outputs
        man = open(os.path.join(pdir, "_package.yml")).read()
        out_py = _outdir(pdir, man, "python", "outputDir")
        out_cpp = _outdir(pdir, man, "cpp", "sourcesOutputDir")
        res["python"] = _check_python(out_py, j.namespace) if out_py else None
        if out_py and j.exercise and res["python"]["rc"] == 0:
            for m in res["python"]["modules"]:
                x = subprocess.run(["python3-vt", os.path.join(vlib.HARNESS, "py", "pynames_exercise.py"), out_py, m], stdout=subprocess.PIPE, stderr=subprocess.PIPE, timeout=300)
                if x.returncode != 0:
                    res["python"] = {"rc": 1, "out": (x.stdout.decode(errors="replace").strip().splitlines() or ["?"])[-1] + "\n" + x.stderr.decode(errors="replace")[-1500:],
                                     "modules": res["python"]["modules"]}
                    break
        if out_cpp and j.compile_cpp:
            res["cpp"] = _check_cpp(out_cpp, j)
        res["stage"] = "done"
    except Exception:   # noqa: BLE001
        import traceback
        res.update(stage="harness", out=traceback.format_exc()[-2000:])
    return res


def _outdir(pdir, man, section, key):
    m = re.search(r"^" + section + r":\n((?:  .*\n?)+)", man, re.M)
    if not m:
        return None
    k = re.search(r"^  " + key + r":\s*(\S+)", m.group(1), re.M)
    return os.path.normpath(os.path.join(pdir, k.group(1).strip("'\""))) if k else None


def _check_python(out_py, namespace):
    mods = [d for d in os.listdir(out_py) if os.path.isdir(os.path.join(out_py, d)) and os.path.exists(os.path.join(out_py, d, "__init__.py"))]
    c = subprocess.run(["python3-vt", "-m", "compileall", "-q", "-f", out_py], stdout=subprocess.PIPE, stderr=subprocess.STDOUT, timeout=300)
    if c.returncode != 0:
        out = c.stdout.decode(errors="replace")
        m = re.search(r"\n\s+(\S[^\n]*)\n\s*\^+\nSyntaxError: ([^\n]*)", out)
        sig = "SyntaxError: " + (re.sub(r"[A-Za-z_][A-Za-z0-9_.]*", "X", m.group(1))[:60] + " :: " + m.group(2) if m else "?")
        return {"rc": 1, "out": sig + "\n" + out[-2500:], "modules": mods}
    code = ("import sys, importlib, inspect\nsys.path.insert(0, sys.argv[1])\n"
            "for m in sys.argv[2:]:\n    importlib.import_module(m)\n    importlib.import_module(m + '.binary')\n    importlib.import_module(m + '.ndjson')\n    importlib.import_module(m + '.protocols')\n"
            # a record whose fields all have defaults must default-construct: a default that names something undefined only fails here
            "    t = importlib.import_module(m + '.types')\n"
            "    for name, cls in sorted(vars(t).items()):\n"
            "        if inspect.isclass(cls) and cls.__module__ == t.__name__ and '__init__' in vars(cls):\n"
            "            try:\n                cls()\n"
            "            except (NameError, AttributeError, ImportError) as e:\n                raise RuntimeError(f'default construction of {m}.{name}: {type(e).__name__}: {e}')\n"
            "            except Exception:\n                pass\n")
    p = subprocess.run(["python3-vt", "-c", code, out_py] + mods, stdout=subprocess.PIPE, stderr=subprocess.PIPE, timeout=300)
    if p.returncode == 0:
        # static: every name the generated modules refer to is bound (a NameError in a line that importing does not run)
        for m in mods:
            u = subprocess.run(["python3-vt", os.path.join(vlib.HARNESS, "py", "pyundef.py"), os.path.join(out_py, m), "types.py", "protocols.py", "binary.py",
                                "ndjson.py", "__init__.py"], stdout=subprocess.PIPE, stderr=subprocess.PIPE, timeout=120)
            try:
                undefined = json.loads(u.stdout)
            except Exception:   # noqa: BLE001
                return {"rc": 1, "out": "NameError: static name check crashed: " + u.stderr.decode(errors="replace")[-800:], "modules": mods}
            if undefined:
                first = undefined[0]
                return {"rc": 1, "out": f"NameError: name '{first['name']}' is not defined (static: {m}/{first['module']} line {first['line']}, scope {first['scope']}); "
                                        + json.dumps(undefined[:8]), "modules": mods}
    return {"rc": p.returncode, "out": (p.stdout + p.stderr).decode(errors="replace")[-2500:], "modules": mods}


def _check_cpp(out_cpp, j):
    # compile every generated translation unit that does not need HDF5 (not installed here)
    main = "int main() { return 0; }\n"
    ok, log = vlib.compile_cpp(out_cpp, main, os.path.join(j.root, "a.out"), ndjson=j.ndjson and os.path.isdir(os.path.join(out_cpp, "ndjson")))
    return {"ok": ok, "log": log[-3000:]}


def judge(report, j, res, seed):
    report.case(distinct_key=(j.kind, j.root))
    report.count("job." + j.kind.split(":")[0])
    files = {}
    if res.get("pkgdir"):
        for dp, _, fns in os.walk(os.path.dirname(res["pkgdir"])):
            for fn in fns:
                if fn.endswith(".yml"):
                    files[os.path.relpath(os.path.join(dp, fn), os.path.dirname(res["pkgdir"]))] = open(os.path.join(dp, fn)).read()[:5000]
    replay = {"seed": seed, "job": j.kind, "files": files}
    if res["stage"] == "harness":
        report.violation("harness:exception", dict(replay, traceback=res["out"], theorem_or_correspondence="C08 job"), "no-failing-input-found")
        return
    if res["stage"] in ("init", "init-rejected"):
        if res["stage"] == "init":
            report.violation("init:no-scaffold", dict(replay, output=res["out"]), "")
        else:
            report.count("init.rejected-name")
        return
    if res["stage"] == "generate":
        sig = _sig(res["out"])
        if j.kind.startswith("names:") and ("is reserved" in res["out"] or "are not distinct when converted" in res["out"]):
            report.count("names.rejected-as-reserved")
            return
        report.violation(f"generate-failed:{sig}", dict(replay, rc=res["rc"], output=res["out"]), "yardl generate failed on a package it accepts" if "panic" in res["out"] or res["rc"] not in (1,) else "")
        return
    py = res.get("python")
    if py is not None:
        report.count("python.checked")
        if py["rc"] != 0:
            report.violation(f"python:{_sig(py['out'])}" + (":" + j.kind if j.kind.startswith(("names:namespace", "init:", "witness:derived-names", "witness:open-generic-union", "cross:")) else ""), dict(replay, output=py["out"]), "the generated Python package does not compile / import")
    cpp = res.get("cpp")
    if cpp is not None:
        report.count("cpp.compiled")
        first_err = next((ln for ln in cpp["log"].splitlines() if "error:" in ln), "")
        if not cpp["ok"] and re.search(r"std::vector<bool|'bool&' to an rvalue of type 'bool'", first_err):
            # the first error is about a sequence of bool (std::vector<bool> has no data() and hands out proxies, not bool&)
            report.violation("cpp:vector-of-bool", dict(replay, output=cpp["log"]), "the generated C++ does not compile as C++17")
        elif not cpp["ok"]:
            report.violation(("cpp:" if j.kind != "witness:standard-macro-names" else "cpp:a-name-is-a-macro-of-the-standard-headers") + (_sig(cpp['log']) if j.kind != "witness:standard-macro-names" else "") + (":" + j.kind if j.kind.startswith(("names:namespace", "init:", "witness:derived-names", "witness:open-generic-union", "cross:")) else ""), dict(replay, output=cpp["log"]), "the generated C++ does not compile as C++17")


def _sig(text):
    if text.startswith("SyntaxError: "):
        return text.split("\n")[0][:110]
    for pat in (r"(panic: [^\n]{0,80})", r"((?:\w+Error|SyntaxError|NameError|TypeError|ImportError|AttributeError)[^\n]{0,90})", r"(error: [^\n]{0,90})", r"(❌[^\n]{0,90})"):
        ms = re.findall(pat, text)
        if ms:
            m = ms[-1] if "Error" in pat else ms[0]
            return re.sub(r"/tmp/[^\s:'\"]+", "<path>", re.sub(r"\d+", "N", m))[:110]
    return "unknown"
