"""C12 — output is a deterministic, idempotent function of the package.

Proof: Props/C12.lean (every map-range site in /repo/tooling, re-extracted with go/types on every run,
is in an order-free class; order-freeness of each class for all sizes; sinks sort by a total key).
Correspondence: the real CLI is run N times (each process has its own map seeds) on packages built to
put >= 3 entries into every map yardl ranges over (versions, union arities, removed protocols, unused
type parameters, duplicate enum values, union tags, --config overrides) plus random valid packages;
every output byte (generated trees, stdout, stderr, exit status) must be identical, and regenerating
an unchanged package must leave every file untouched (mtime + content).
"""
import hashlib
import json
import os
import random
import subprocess
import time

import gen_tables
import modelgen
import vlib

THEOREMS = ["Yardl.C12.every_map_range_is_order_free", "Yardl.C12.sinks_sort_by_a_total_key",
            "Yardl.C12.sorted_sink_order_free", "Yardl.C12.commutative_accumulation_order_free",
            "Yardl.C12.sorted_keys_order_free", "Yardl.C12.no_tiebreak_is_ambiguous",
            "Yardl.C12.regeneration_touches_nothing", "Yardl.C12.file_written_iff_different", "Yardl.C12.generated_files_hold_their_content"]

MANIFEST_OUT = """cpp:
  sourcesOutputDir: ../out/cpp
  generateCMakeLists: true
  overrideArrayHeader: vf_ndarray.h
python:
  outputDir: ../out/py
matlab:
  outputDir: ../out/matlab
json:
  outputDir: ../out/json
"""


def w(path, text):
    os.makedirs(os.path.dirname(path), exist_ok=True)
    open(path, "w").write(text)


V0 = """Header: !record
  fields:
    id: int
    name: string
Sample: !record
  fields:
    a: int
    b: float
    c: string?
U2: [int, string]
U3: [int, string, float]
U4: [null, int, string, float, double]
PA: !protocol
  sequence:
    h: Header
    s: !stream
      items: Sample
PB: !protocol
  sequence:
    x: U2
PC: !protocol
  sequence:
    y: U3
PD: !protocol
  sequence:
    z: U4
PE: !protocol
  sequence:
    q: int
"""
V1 = V0.replace("    b: float\n", "    b: double\n").replace("    name: string\n", "    name: string\n    extra: int?\n")
V2 = V1.replace("    a: int\n", "    a: long\n").replace("PE: !protocol\n  sequence:\n    q: int\n", "")
LATEST = V2.replace("    id: int\n", "    id: long\n").replace("PD: !protocol\n  sequence:\n    z: U4\n", "") \
           .replace("PC: !protocol\n  sequence:\n    y: U3\n", "").replace("PB: !protocol\n  sequence:\n    x: U2\n", "") + \
    "Extra: !record\n  fields:\n    u: [int, string, float]\n    v: [null, float, double, int, long]\nPN: !protocol\n  sequence:\n    e: Extra\n"


def scenario_versions(root):
    """valid package, 3 previous versions, removed protocols (warnings), changed records."""
    for label, text in (("v0", V0), ("v1", V1), ("v2", V2)):
        w(os.path.join(root, label, "_package.yml"), "namespace: Evo\n")
        w(os.path.join(root, label, "model.yml"), text)
    w(os.path.join(root, "m", "_package.yml"), "namespace: Evo\nversions:\n  v0: ../v0\n  v1: ../v1\n  v2: ../v2\n" + MANIFEST_OUT)
    w(os.path.join(root, "m", "model.yml"), LATEST)
    return os.path.join(root, "m"), ["generate"], "valid-with-versions"


def scenario_unions_everywhere(root):
    """unions in every place a union can sit (a generated class per union in Python, C++ and MATLAB), named and inline; one file per class in MATLAB"""
    w(os.path.join(root, "m", "_package.yml"), "namespace: Un\n" + MANIFEST_OUT)
    w(os.path.join(root, "m", "model.yml"), """A: [int, string]
B: !union
  i: int
  f: float
R: !record
  fields:
    a: A
    b: B
    c: [int, float]
    d: [null, int, string]
    e: !vector
      items: [string, float]
    m: !map
      keys: string
      values: [int, double]
P: !protocol
  sequence:
    r: R
    s: !stream
      items: [R, int]
""")
    return os.path.join(root, "m"), ["generate"], "unions-everywhere"


def scenario_named_union_holding_a_union(root):
    """witness of an open finding: a named union one of whose cases holds another union - the MATLAB back end writes both classes to <alias>.m"""
    w(os.path.join(root, "m", "_package.yml"), "namespace: Un\n" + MANIFEST_OUT)
    w(os.path.join(root, "m", "model.yml"), "U: !union\n  i: int\n  v: !vector\n    items: [string, float]\nP: !protocol\n  sequence:\n    a: U\n")
    return os.path.join(root, "m"), ["generate"], "matlabnestedunionwitness-named-union-holding-a-union"


def scenario_invalid(root):
    """many independent errors, several at the same position, from map-ranging validation passes."""
    text = """E: !enum
  values:
    a: 1
    b: 1
    c: 2
    d: 2
    e: 3
    f: 3
G<A, B, C, D>: !record
  fields:
    x: int
H<P, Q, R>: int
R: !record
  fields:
    u: !union {t1: int, t1: string, t2: float, t2: double}
    v: Missing1
    w: Missing2
    z: Missing3
"""
    w(os.path.join(root, "m", "_package.yml"), "namespace: Bad\n" + MANIFEST_OUT)
    w(os.path.join(root, "m", "model.yml"), text)
    return os.path.join(root, "m"), ["validate"], "invalid-many-errors"


def scenario_invalid_generics(root):
    text = """G<A, B, C, D>: !record
  fields:
    x: int
H<P, Q, R>: int
K<X, Y, Z>: !record
  fields:
    y: string
"""
    w(os.path.join(root, "m", "_package.yml"), "namespace: Bad\n" + MANIFEST_OUT)
    w(os.path.join(root, "m", "model.yml"), text)
    return os.path.join(root, "m"), ["validate"], "invalid-unused-type-parameters"


def scenario_invalid_evolution(root):
    w(os.path.join(root, "v0", "_package.yml"), "namespace: Evo\n")
    w(os.path.join(root, "v0", "model.yml"), V0)
    bad = V0.replace("    h: Header\n    s: !stream\n      items: Sample\n", "    s: !stream\n      items: Sample\n    h: Header\n") \
            .replace("PB: !protocol\n  sequence:\n    x: U2\n", "").replace("PC: !protocol\n  sequence:\n    y: U3\n", "") \
            .replace("PD: !protocol\n  sequence:\n    z: U4\n", "").replace("    a: int\n", "    a: string*\n")
    w(os.path.join(root, "m", "_package.yml"), "namespace: Evo\nversions:\n  v0: ../v0\n" + MANIFEST_OUT)
    w(os.path.join(root, "m", "model.yml"), bad)
    return os.path.join(root, "m"), ["validate"], "invalid-evolution"


def scenario_bad_config(root):
    w(os.path.join(root, "m", "_package.yml"), "namespace: Cfg\n" + MANIFEST_OUT)
    w(os.path.join(root, "m", "model.yml"), "R: !record\n  fields:\n    x: int\n")
    return os.path.join(root, "m"), ["validate", "-c", "zeta.bogus=1", "-c", "alpha.bogus=2", "-c", "mid.bogus=3", "-c", "beta.bogus=4"], "invalid-config-keys"


def tree_digest(d):
    h = {}
    for root, _, files in os.walk(d):
        for fn in files:
            p = os.path.join(root, fn)
            h[os.path.relpath(p, d)] = (hashlib.sha256(open(p, "rb").read()).hexdigest(), os.stat(p).st_mtime_ns)
    return h


def run_once(ybin, pkgdir, args, home):
    env = dict(os.environ, HOME=home)
    p = subprocess.run([ybin] + args, cwd=pkgdir, stdout=subprocess.PIPE, stderr=subprocess.PIPE, env=env, timeout=120)
    return p.returncode, p.stdout.decode(errors="replace"), p.stderr.decode(errors="replace")


def run(report, tier, seed):
    quick = tier == "quick"
    n_runs = 6 if quick else 40
    report.rule = ("a case = one execution of the CLI; each scenario is executed N times and all observable output compared; "
                   "distinct = distinct (scenario, run index); non-trivial = scenario puts >= 3 entries in some map yardl ranges over")
    rng = random.Random(seed * 31 + 12)
    with vlib.Scratch("vf-c12-") as sc:
        t = gen_tables.generate(sc)
        lean_ok, _ = vlib.check_lean(report, "Props.C12", THEOREMS)
        report.extra["map_range_sites"] = [{k: s[k] for k in ("file", "func", "expr", "cls", "why")} for s in t["mapranges"] if "file" in s]
        report.extra["sink_ordering_keys"] = [s for s in t["mapranges"] if "sink" in s]
        ybin = vlib.build_yardl(sc)
        home = sc.path("home")
        os.makedirs(home, exist_ok=True)
        scen = [scenario_versions, scenario_unions_everywhere, scenario_named_union_holding_a_union, scenario_invalid, scenario_invalid_generics, scenario_invalid_evolution, scenario_bad_config]
        found = False
        for i, mk in enumerate(scen):
            r = _repeat(report, ybin, home, *mk(sc.path(f"s{i}")), n_runs=n_runs, seed=seed)
            if mk is not scenario_named_union_holding_a_union:     # the witness of a recorded finding is not "a failing input found" for a broken obligation
                found |= r
        for j in range(2 if quick else 12):
            g = modelgen.Gen(seed * 1009 + j)
            pkg = g.gen_package()
            d = vlib.write_package(sc.path(f"r{j}"), pkg, g.rng, matlab=True)
            found |= _repeat(report, ybin, home, d, ["generate"], f"random-valid-{j}", n_runs=max(3, n_runs // 2), seed=seed, outdir=sc.path(f"r{j}"))
        inproc = vlib.build_go_harness(sc, "inproc")
        lean = vlib.LeanDriver("wiredrv")
        found |= write_if_needed_level(report, sc, inproc, lean, seed, quick)
        lean.close()
        found |= target_subsets(report, sc, ybin, home, seed, 2 if quick else 10)
        if not lean_ok and not found:
            bad_sites = [s for s in t["mapranges"] if s.get("cls") == "other"]
            report.violation("lean:Props.C12", {"theorem_or_correspondence": "Props.C12: a map-range site is unclassified or a sink no longer sorts by a total key",
                                                "unclassified_sites": [{k: s[k] for k in ("file", "func", "expr", "line", "why")} for s in bad_sites],
                                                "sink_ordering_keys": report.extra["sink_ordering_keys"],
                                                "log": (report.extra.get("lean_build_log") or report.extra.get("lean_axiom_log", ""))[-2000:]},
                             "no-failing-input-found")


def _repeat(report, ybin, home, pkgdir, args, name, n_runs, seed, outdir=None):
    out_root = outdir or os.path.join(os.path.dirname(pkgdir), "out")
    observations = []
    for r in range(n_runs):
        rc, out, err = run_once(ybin, pkgdir, args, home)
        # normalise the only legitimately varying text: none (paths are identical across runs)
        digest = {k: v[0] for k, v in tree_digest(out_root).items() if not k.startswith("pkg_")} if os.path.isdir(out_root) else {}
        observations.append({"rc": rc, "stdout": out, "stderr": err, "files": digest})
        report.case(distinct_key=(name, r), sample={"scenario": name, "args": args, "rc": rc, "stderr_lines": err.count("\n")} if r == 0 else None)
        report.count(f"runs.{name.split('-')[0]}")
    first = observations[0]
    for r, o in enumerate(observations[1:], 1):
        if o != first:
            diff = {k: (first[k], o[k]) for k in ("rc", "stdout", "stderr") if first[k] != o[k]}
            fdiff = [k for k in set(first["files"]) | set(o["files"]) if first["files"].get(k) != o["files"].get(k)]
            report.violation(f"nondeterministic:{name.split('-')[0]}:{'files' if fdiff else '+'.join(sorted(diff))}",
                             {"scenario": name, "args": args, "package_dir_files": _pkgfiles(pkgdir), "run_a": 0, "run_b": r,
                              "differences": {k: [v[0][-1500:], v[1][-1500:]] if isinstance(v[0], str) else list(v) for k, v in diff.items()},
                              "differing_files": fdiff[:20], "seed": seed},
                             "two executions on the same package differ")
            return True
    # idempotence: one more run must not touch any file
    if "generate" in args and first["rc"] == 0:
        before = tree_digest(out_root)
        time.sleep(0.05)
        run_once(ybin, pkgdir, args, home)
        after = tree_digest(out_root)
        report.case(distinct_key=(name, "idempotence"))
        touched = [k for k in after if before.get(k) != after[k]] + [k for k in before if k not in after]
        if touched:
            report.violation(f"not-idempotent:{name.split('-')[0]}", {"scenario": name, "touched": touched[:30], "package_dir_files": _pkgfiles(pkgdir)},
                             "regenerating an unchanged package rewrote or removed files")
            return True
    return False


BLOCKS = [1, 2, 64, 512, 1024, 4096, 8192, 16384, 32768, 65536, 131072]


def write_if_needed_level(report, sc, inproc, lean, seed, quick):
    """iocommon.WriteFileIfNeeded in-process against Det.writeIfNeeded: same content (must not be touched) and a single differing
    byte at the first / last / block-boundary positions, longer, shorter and missing files, at sizes around every block size"""
    d = sc.path("win")
    os.makedirs(d, exist_ok=True)
    p = subprocess.Popen([inproc, "writeifneeded", d], stdin=subprocess.PIPE, stdout=subprocess.PIPE)
    rng = random.Random(seed * 7 + 1)
    sizes = sorted({0, 3} | {b * k + e for b in BLOCKS for k in (1, 2, 3) for e in (-1, 0, 1) if 0 <= b * k + e <= 3 * 65536 + 1})
    if quick:
        sizes = [n for n in sizes if n <= 2 * 65536 + 1]
    found = False
    reqs = []
    for n in sizes:
        reqs.append({"old_size": n, "new_size": n, "flip": -1})
        reqs.append({"old_size": -1, "new_size": n, "flip": -1})
        for pos in sorted({0, n - 1, n // 2} | {b * k + e for b in BLOCKS for k in (1, 2) for e in (-1, 0)}):
            if 0 <= pos < n and (not quick or pos in (0, n - 1) or rng.random() < 0.15):
                reqs.append({"old_size": n, "new_size": n, "flip": pos})
        reqs.append({"old_size": n, "new_size": n + 1, "flip": -1})
        if n:
            reqs.append({"old_size": n, "new_size": n - 1, "flip": -1})
    for rq in reqs:
        p.stdin.write((json.dumps(rq) + "\n").encode())
        p.stdin.flush()
        got = json.loads(p.stdout.readline())
        want = lean.ask(dict(rq, op="write_if_needed"))
        report.case(distinct_key=("write-if-needed", json.dumps(rq)))
        report.count("write-if-needed." + ("same" if rq["old_size"] == rq["new_size"] and rq["flip"] < 0 else "different"))
        if got.get("err") or got.get("touched") != want["touched"] or not got.get("content_ok"):
            kind = "rewritten-although-unchanged" if (not want["touched"] and got.get("touched")) else "not-written-although-different" if want["touched"] else "other"
            report.violation(f"write-if-needed:{kind}", {"request": rq, "implementation": got, "model": want, "seed": seed},
                             "iocommon.WriteFileIfNeeded deviates from 'write exactly when missing or different'")
            found = True
            if sum(1 for k, _, _ in report.violations if k.startswith("write-if-needed")) > 5:
                break
    p.stdin.close()
    p.wait()
    return found


SUBSETS = [("python", "python:\n  outputDir: ../outS/py\n"), ("json", "json:\n  outputDir: ../outS/json\n"), ("matlab", "matlab:\n  outputDir: ../outS/matlab\n"),
           ("cpp", "cpp:\n  sourcesOutputDir: ../outS/cpp\n  generateCMakeLists: true\n  overrideArrayHeader: vf_ndarray.h\n")]


def target_subsets(report, sc, ybin, home, seed, n):
    """what a back end writes depends on the package only - not on which other back ends run before it in the same process"""
    found = False
    pkgs = [("directed", modelgen.directed_package()), ("nullable", modelgen.nullable_package()), ("untagged", modelgen.untagged_unions_package(small=True))]
    for j in range(n):
        g = modelgen.Gen(seed * 1013 + j)
        g.avoid_bool_sequences = False
        pkgs.append((f"random{j}", g.gen_package()))
    for name, pkg in pkgs:
        root = sc.path(f"sub-{name}")
        d = vlib.write_package(root, pkg, random.Random(seed), cpp=False, python=False, js=False, extra_manifest=MANIFEST_OUT.replace("../out/", "../outA/").rstrip("\n"))
        rc, out, err = run_once(ybin, d, ["generate"], home)
        if rc != 0:
            report.violation("generate:model", {"package": name, "error": err[-1500:], "package_dir_files": _pkgfiles(d)}, "")
            found = True
            continue
        man = open(os.path.join(d, "_package.yml")).read()
        head = man[:man.index("cpp:")]
        for tgt, section in SUBSETS:
            open(os.path.join(d, "_package.yml"), "w").write(head + section)
            outS = os.path.join(root, "outS")
            subprocess.run(["rm", "-rf", outS])
            rc, out, err = run_once(ybin, d, ["generate"], home)
            report.case(distinct_key=("target-subset", name, tgt))
            report.count("target-subset." + tgt)
            sub = {"python": "py"}.get(tgt, tgt)
            a = {k: v[0] for k, v in tree_digest(os.path.join(root, "outA", sub)).items()}
            b = {k: v[0] for k, v in tree_digest(os.path.join(outS, sub)).items()} if os.path.isdir(os.path.join(outS, sub)) else {}
            if rc != 0 or a != b:
                differing = sorted(k for k in set(a) | set(b) if a.get(k) != b.get(k))[:10]
                report.violation(f"output-depends-on-other-targets:{tgt}", {"package": name, "target": tgt, "rc": rc, "stderr": err[-800:], "differing_files": differing,
                                                                            "package_dir_files": _pkgfiles(d), "seed": seed},
                                 "the files a back end writes differ when it runs alone and when it runs after the other back ends")
                found = True
        open(os.path.join(d, "_package.yml"), "w").write(man)
    return found


def _pkgfiles(pkgdir):
    res = {}
    base = os.path.dirname(pkgdir)
    for root, _, files in os.walk(base):
        if os.sep + "out" in root:
            continue
        for fn in files:
            if fn.endswith(".yml"):
                res[os.path.relpath(os.path.join(root, fn), base)] = open(os.path.join(root, fn)).read()
    return res
