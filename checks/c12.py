"""C12 — output is a deterministic, idempotent function of the package.

Proof: Props/C12.lean (every map-range site in /repo/tooling, re-extracted with go/types on every run,
is in an order-free class; order-freeness of each class for all sizes; sinks sort by a total key).
Correspondence: the real CLI is run N times (each process has its own map seeds) on packages built to
put >= 3 entries into every map yardl ranges over (versions, union arities, removed protocols, unused
type parameters, duplicate enum values, union tags, --config overrides) plus random valid packages;
every output byte (generated trees, stdout, stderr, exit status) must be identical, and regenerating
an unchanged package must leave every file untouched (mtime + content).
"""
import hashlib
import json
import os
import random
import subprocess
import time

import gen_tables
import modelgen
import vlib

THEOREMS = ["Yardl.C12.every_map_range_is_order_free", "Yardl.C12.sinks_sort_by_a_total_key",
            "Yardl.C12.sorted_sink_order_free", "Yardl.C12.commutative_accumulation_order_free",
            "Yardl.C12.sorted_keys_order_free", "Yardl.C12.no_tiebreak_is_ambiguous"]

MANIFEST_OUT = """cpp:
  sourcesOutputDir: ../out/cpp
  generateCMakeLists: true
  overrideArrayHeader: vf_ndarray.h
python:
  outputDir: ../out/py
matlab:
  outputDir: ../out/matlab
json:
  outputDir: ../out/json
"""


def w(path, text):
    os.makedirs(os.path.dirname(path), exist_ok=True)
    open(path, "w").write(text)


V0 = """Header: !record
  fields:
    id: int
    name: string
Sample: !record
  fields:
    a: int
    b: float
    c: string?
U2: [int, string]
U3: [int, string, float]
U4: [null, int, string, float, double]
PA: !protocol
  sequence:
    h: Header
    s: !stream
      items: Sample
PB: !protocol
  sequence:
    x: U2
PC: !protocol
  sequence:
    y: U3
PD: !protocol
  sequence:
    z: U4
PE: !protocol
  sequence:
    q: int
"""
V1 = V0.replace("    b: float\n", "    b: double\n").replace("    name: string\n", "    name: string\n    extra: int?\n")
V2 = V1.replace("    a: int\n", "    a: long\n").replace("PE: !protocol\n  sequence:\n    q: int\n", "")
LATEST = V2.replace("    id: int\n", "    id: long\n").replace("PD: !protocol\n  sequence:\n    z: U4\n", "") \
           .replace("PC: !protocol\n  sequence:\n    y: U3\n", "").replace("PB: !protocol\n  sequence:\n    x: U2\n", "") + \
    "Extra: !record\n  fields:\n    u: [int, string, float]\n    v: [null, float, double, int, long]\nPN: !protocol\n  sequence:\n    e: Extra\n"


def scenario_versions(root):
    """valid package, 3 previous versions, removed protocols (warnings), changed records."""
    for label, text in (("v0", V0), ("v1", V1), ("v2", V2)):
        w(os.path.join(root, label, "_package.yml"), "namespace: Evo\n")
        w(os.path.join(root, label, "model.yml"), text)
    w(os.path.join(root, "m", "_package.yml"), "namespace: Evo\nversions:\n  v0: ../v0\n  v1: ../v1\n  v2: ../v2\n" + MANIFEST_OUT)
    w(os.path.join(root, "m", "model.yml"), LATEST)
    return os.path.join(root, "m"), ["generate"], "valid-with-versions"


def scenario_invalid(root):
    """many independent errors, several at the same position, from map-ranging validation passes."""
    text = """E: !enum
  values:
    a: 1
    b: 1
    c: 2
    d: 2
    e: 3
    f: 3
G<A, B, C, D>: !record
  fields:
    x: int
H<P, Q, R>: int
R: !record
  fields:
    u: !union {t1: int, t1: string, t2: float, t2: double}
    v: Missing1
    w: Missing2
    z: Missing3
"""
    w(os.path.join(root, "m", "_package.yml"), "namespace: Bad\n" + MANIFEST_OUT)
    w(os.path.join(root, "m", "model.yml"), text)
    return os.path.join(root, "m"), ["validate"], "invalid-many-errors"


def scenario_invalid_generics(root):
    text = """G<A, B, C, D>: !record
  fields:
    x: int
H<P, Q, R>: int
K<X, Y, Z>: !record
  fields:
    y: string
"""
    w(os.path.join(root, "m", "_package.yml"), "namespace: Bad\n" + MANIFEST_OUT)
    w(os.path.join(root, "m", "model.yml"), text)
    return os.path.join(root, "m"), ["validate"], "invalid-unused-type-parameters"


def scenario_invalid_evolution(root):
    w(os.path.join(root, "v0", "_package.yml"), "namespace: Evo\n")
    w(os.path.join(root, "v0", "model.yml"), V0)
    bad = V0.replace("    h: Header\n    s: !stream\n      items: Sample\n", "    s: !stream\n      items: Sample\n    h: Header\n") \
            .replace("PB: !protocol\n  sequence:\n    x: U2\n", "").replace("PC: !protocol\n  sequence:\n    y: U3\n", "") \
            .replace("PD: !protocol\n  sequence:\n    z: U4\n", "").replace("    a: int\n", "    a: string*\n")
    w(os.path.join(root, "m", "_package.yml"), "namespace: Evo\nversions:\n  v0: ../v0\n" + MANIFEST_OUT)
    w(os.path.join(root, "m", "model.yml"), bad)
    return os.path.join(root, "m"), ["validate"], "invalid-evolution"


def scenario_bad_config(root):
    w(os.path.join(root, "m", "_package.yml"), "namespace: Cfg\n" + MANIFEST_OUT)
    w(os.path.join(root, "m", "model.yml"), "R: !record\n  fields:\n    x: int\n")
    return os.path.join(root, "m"), ["validate", "-c", "zeta.bogus=1", "-c", "alpha.bogus=2", "-c", "mid.bogus=3", "-c", "beta.bogus=4"], "invalid-config-keys"


def tree_digest(d):
    h = {}
    for root, _, files in os.walk(d):
        for fn in files:
            p = os.path.join(root, fn)
            h[os.path.relpath(p, d)] = (hashlib.sha256(open(p, "rb").read()).hexdigest(), os.stat(p).st_mtime_ns)
    return h


def run_once(ybin, pkgdir, args, home):
    env = dict(os.environ, HOME=home)
    p = subprocess.run([ybin] + args, cwd=pkgdir, stdout=subprocess.PIPE, stderr=subprocess.PIPE, env=env, timeout=120)
    return p.returncode, p.stdout.decode(errors="replace"), p.stderr.decode(errors="replace")


def run(report, tier, seed):
    quick = tier == "quick"
    n_runs = 6 if quick else 40
    report.rule = ("a case = one execution of the CLI; each scenario is executed N times and all observable output compared; "
                   "distinct = distinct (scenario, run index); non-trivial = scenario puts >= 3 entries in some map yardl ranges over")
    rng = random.Random(seed * 31 + 12)
    with vlib.Scratch("vf-c12-") as sc:
        t = gen_tables.generate(sc)
        lean_ok, _ = vlib.check_lean(report, "Props.C12", THEOREMS)
        report.extra["map_range_sites"] = [{k: s[k] for k in ("file", "func", "expr", "cls", "why")} for s in t["mapranges"] if "file" in s]
        report.extra["sink_ordering_keys"] = [s for s in t["mapranges"] if "sink" in s]
        ybin = vlib.build_yardl(sc)
        home = sc.path("home")
        os.makedirs(home, exist_ok=True)
        scen = [scenario_versions, scenario_invalid, scenario_invalid_generics, scenario_invalid_evolution, scenario_bad_config]
        found = False
        for i, mk in enumerate(scen):
            found |= _repeat(report, ybin, home, *mk(sc.path(f"s{i}")), n_runs=n_runs, seed=seed)
        for j in range(2 if quick else 12):
            g = modelgen.Gen(seed * 1009 + j)
            pkg = g.gen_package()
            d = vlib.write_package(sc.path(f"r{j}"), pkg, g.rng, matlab=True)
            found |= _repeat(report, ybin, home, d, ["generate"], f"random-valid-{j}", n_runs=max(3, n_runs // 2), seed=seed, outdir=sc.path(f"r{j}"))
        if not lean_ok and not found:
            bad_sites = [s for s in t["mapranges"] if s.get("cls") == "other"]
            report.violation("lean:Props.C12", {"theorem_or_correspondence": "Props.C12: a map-range site is unclassified or a sink no longer sorts by a total key",
                                                "unclassified_sites": [{k: s[k] for k in ("file", "func", "expr", "line", "why")} for s in bad_sites],
                                                "sink_ordering_keys": report.extra["sink_ordering_keys"],
                                                "log": (report.extra.get("lean_build_log") or report.extra.get("lean_axiom_log", ""))[-2000:]},
                             "no-failing-input-found")


def _repeat(report, ybin, home, pkgdir, args, name, n_runs, seed, outdir=None):
    out_root = outdir or os.path.join(os.path.dirname(pkgdir), "out")
    observations = []
    for r in range(n_runs):
        rc, out, err = run_once(ybin, pkgdir, args, home)
        # normalise the only legitimately varying text: none (paths are identical across runs)
        digest = {k: v[0] for k, v in tree_digest(out_root).items() if not k.startswith("pkg_")} if os.path.isdir(out_root) else {}
        observations.append({"rc": rc, "stdout": out, "stderr": err, "files": digest})
        report.case(distinct_key=(name, r), sample={"scenario": name, "args": args, "rc": rc, "stderr_lines": err.count("\n")} if r == 0 else None)
        report.count(f"runs.{name.split('-')[0]}")
    first = observations[0]
    for r, o in enumerate(observations[1:], 1):
        if o != first:
            diff = {k: (first[k], o[k]) for k in ("rc", "stdout", "stderr") if first[k] != o[k]}
            fdiff = [k for k in set(first["files"]) | set(o["files"]) if first["files"].get(k) != o["files"].get(k)]
            report.violation(f"nondeterministic:{name.split('-')[0]}:{'files' if fdiff else '+'.join(sorted(diff))}",
                             {"scenario": name, "args": args, "package_dir_files": _pkgfiles(pkgdir), "run_a": 0, "run_b": r,
                              "differences": {k: [v[0][-1500:], v[1][-1500:]] if isinstance(v[0], str) else list(v) for k, v in diff.items()},
                              "differing_files": fdiff[:20], "seed": seed},
                             "two executions on the same package differ")
            return True
    # idempotence: one more run must not touch any file
    if "generate" in args and first["rc"] == 0:
        before = tree_digest(out_root)
        time.sleep(0.05)
        run_once(ybin, pkgdir, args, home)
        after = tree_digest(out_root)
        report.case(distinct_key=(name, "idempotence"))
        touched = [k for k in after if before.get(k) != after[k]] + [k for k in before if k not in after]
        if touched:
            report.violation(f"not-idempotent:{name.split('-')[0]}", {"scenario": name, "touched": touched[:30], "package_dir_files": _pkgfiles(pkgdir)},
                             "regenerating an unchanged package rewrote or removed files")
            return True
    return False


def _pkgfiles(pkgdir):
    res = {}
    base = os.path.dirname(pkgdir)
    for root, _, files in os.walk(base):
        if os.sep + "out" in root:
            continue
        for fn in files:
            if fn.endswith(".yml"):
                res[os.path.relpath(os.path.join(root, fn), base)] = open(os.path.join(root, fn)).read()
    return res
