"""C13 — alternative spellings of a model are the same model.

Proof: Props/C13.lean (any two spellings of a surface type give the front end the same tree; alias
table facts over the regenerated table).
Tie, type level: random surface types, two random spellings each (shorthand / expanded / mixed,
redundant parentheses, whitespace), rendered to YAML and parsed by the real UnmarshalTypeYAML
(in-process): raw tree = Lean convY, both satisfy isSpelling, normalised trees agree; malformed nodes
are rejected by both.
Artefact level: random packages written twice with different spelling coins (plus trailing comments,
blank lines): accepted together and byte-identical C++/Python/MATLAB/JSON output; shuffled + re-split
definitions: accepted together, identical schema per protocol, generated Python imports and
re-serializes Lean-encoded streams to identical bytes; one injected rule violation is rejected under
every spelling.
"""
import copy
import filecmp
import json
import os
import random
import subprocess

import codeclab
import gen_tables
from checks import c13_parser
import modelgen
import spellgen
import vlib
from checks import c01

THEOREMS = ["Yardl.C13.spellings_build_the_same_tree", "Yardl.C13.shorthand_sound", "Yardl.C13.primitive_names_resolve_to_themselves",
            "Yardl.C13.documented_aliases", "Yardl.C13.alias_resolution_idempotent", "Yardl.C13.non_aliases_do_not_resolve",
            "Yardl.C13.equal_plans_equal_bytes", "Yardl.C13.accepted_definitions_are_in_dependency_order",
            "Yardl.C13.shorthand_text_is_read_back", "Yardl.C13.printed_shorthand_builds_the_same_tree"]


class GoTree:
    def __init__(self, exe):
        self.p = subprocess.Popen([exe, "typetree"], stdin=subprocess.PIPE, stdout=subprocess.PIPE)

    def ask(self, yaml_text):
        self.p.stdin.write((json.dumps({"yaml": yaml_text}) + "\n").encode())
        self.p.stdin.flush()
        line = self.p.stdout.readline()
        if not line:
            raise RuntimeError("typetree harness died")
        return json.loads(line)

    def close(self):
        self.p.stdin.close()
        self.p.wait()


def run(report, tier, seed):
    quick = tier == "quick"
    report.rule = ("type level: a case = one (surface type, spelling) parsed by UnmarshalTypeYAML and by the Lean model; package level: a case = "
                   "one (package, respelling | reordering | invalid variant, target); distinct = distinct YAML texts / (package, edit); "
                   "non-trivial = spelling with at least one tail or expanded node")
    with vlib.Scratch("vf-c13g-") as gsc:
        gen_tables.generate(gsc)
    lean_ok, _ = vlib.check_lean(report, "Props.C13", THEOREMS)
    if not lean_ok:
        report.violation("lean:Props.C13", {"theorem_or_correspondence": "Props.C13 does not build or audit (alias table of the current source?)",
                                            "log": (report.extra.get("lean_build_log") or report.extra.get("lean_axiom_log", ""))[-3000:]},
                         "no-failing-input-found")
    with vlib.Scratch("vf-c13-") as sc:
        ybin = vlib.build_yardl(sc)
        inproc = vlib.build_go_harness(sc, "inproc")
        lean = vlib.LeanDriver("wiredrv")
        go = GoTree(inproc)
        type_level(report, lean, go, seed, 300 if quick else 6000)
        go.close()
        c13_parser.parser_level(report, lean, inproc, seed, 400 if quick else 8000)
        package_level(report, sc, ybin, lean, seed, 3 if quick else 25)
        toposort_level(report, sc, inproc, lean, seed, 25 if quick else 300)
        order_verdicts(report, sc, ybin, seed)
        lean.close()


def type_level(report, lean, go, seed, n):
    r = random.Random(seed * 7919 + 13)
    for i in range(n):
        sur = spellgen.gen_sur(r, r.choice([1, 2, 3, 4]))
        sems = []
        for k, short_p in enumerate([0.9, 0.1, 0.5]):
            y = spellgen.spell(r, sur, short_p)
            text = spellgen.render_y(r, y)
            g = go.ask(text)
            m = lean.ask({"op": "syntax", "y": y, "sur": sur})
            report.case(distinct_key=text, sample={"surface_type": sur, "yaml": text} if i % 97 == 0 and k == 0 else None)
            report.count("spelling." + y[0])
            replay = {"seed": seed, "surface_type": sur, "spelling": y, "yaml": text, "go": g, "lean": m}
            if "panic" in g:
                report.violation("go:panic-in-UnmarshalTypeYAML", replay, "the parser panicked on a valid spelling")
                continue
            if "tree" not in g:
                report.violation("go:valid-spelling-rejected", replay, "UnmarshalTypeYAML rejects a documented spelling")
                continue
            if m.get("raw") != g["tree"]:
                report.violation("model:convY-differs-from-UnmarshalTypeYAML",
                                 dict(replay, theorem_or_correspondence="convY/convS vs UnmarshalTypeYAML/convertType on the same node"),
                                 "the Lean front-end model and the real parser build different trees")
                continue
            if not m["sur"]["is_spelling"]:
                report.violation("model:generated-spelling-not-recognised", dict(replay, theorem_or_correspondence="isSpelling on the harness's own spelling"),
                                 "no-failing-input-found")
                continue
            sems.append((text, m["sem"], m["sur"]["tree_of_sur"]))
        for text, sem, want in sems:
            if sem != want or sem != sems[0][1]:
                report.violation("spellings-build-different-trees", {"seed": seed, "surface_type": sur, "yaml_a": sems[0][0], "yaml_b": text,
                                                                     "tree_a": sems[0][1], "tree_b": sem},
                                 "two spellings of one type give different trees")
        if i % 8 == 0:
            y = spellgen.malformed(r, spellgen.spell(r, sur, 0.2))
            text = spellgen.render_y(r, y)
            g = go.ask(text)
            m = lean.ask({"op": "syntax", "y": y})
            report.case(distinct_key=text)
            report.count("malformed")
            if ("tree" in g) != (m.get("raw") is not None) and not (y[0] == "generic"):
                report.violation("malformed-node-verdicts-differ", {"seed": seed, "yaml": text, "go": g, "lean_accepts": m.get("raw") is not None,
                                                                    "theorem_or_correspondence": "convY = none iff UnmarshalTypeYAML errors"}, "")
            if "panic" in g:
                report.violation("go:panic-in-UnmarshalTypeYAML", {"seed": seed, "yaml": text, "go": g}, "the parser panicked")


def _noise(rng):
    def f(txt):
        out = []
        for line in txt.split("\n"):
            if line.strip() and not line.lstrip().startswith("#") and rng.random() < 0.25 and (line.rstrip().endswith('"') or line.rstrip().endswith("}")
                                                                                                or line.rstrip().endswith("]")):
                line = line + "   # " + rng.choice(["note", "todo: check", "x"])
            out.append(line)
            if rng.random() < 0.1 and not line.startswith(" "):
                out.append("")
        return "\n".join(out)
    return f


def _tree_files(root):
    res = {}
    for dp, _, fns in os.walk(root):
        for fn in fns:
            p = os.path.join(dp, fn)
            res[os.path.relpath(p, root)] = p
    return res


def _diff_trees(a, b):
    fa, fb = _tree_files(a), _tree_files(b)
    if set(fa) != set(fb):
        return "file sets differ: " + str(sorted(set(fa) ^ set(fb))[:10])
    for k in sorted(fa):
        if not filecmp.cmp(fa[k], fb[k], shallow=False):
            la, lb = open(fa[k], errors="replace").read().split("\n"), open(fb[k], errors="replace").read().split("\n")
            for i, (x, y) in enumerate(zip(la, lb)):
                if x != y:
                    return f"{k}:{i + 1}: {x[:200]!r} vs {y[:200]!r}"
            return f"{k}: lengths differ"
    return None


def package_level(report, sc, ybin, lean, seed, n):
    for i in range(n + (6 if n < 10 else 40)):
        g = modelgen.Gen(seed * 100151 + i)
        g.avoid_bool_sequences = False
        # after the random packages: the directed one, re-ordered / re-split differently each time
        pkg = g.gen_package() if i < n else modelgen.spelling_directed_package()
        base = codeclab.Lab(sc, ybin, f"{i}a", g, pkg=pkg, ndjson=True, want_cpp=True, want_matlab=True)
        base.spell_rng, base.expanded_p = random.Random(seed + 1), 0.05
        base.prepare_generate_only = True
        _generate(base)
        files = c01._files(base) if base.gen_ok else None
        if not base.gen_ok:
            report.violation("generate:model", {"seed": seed, "model_index": i, "error": base.err}, "")
            continue
        report.count("packages")
        # (1) pure respelling + non-documentation comments + blank lines
        for vname, ep in ((("expanded", 0.95), ("mixed", 0.5)) if i <= n else ()):
            v = codeclab.Lab(sc, ybin, f"{i}{vname}", g, pkg=pkg, ndjson=True, want_cpp=True, want_matlab=True)
            v.spell_rng, v.expanded_p, v.text_filter = random.Random(seed + 7 + len(vname)), ep, _noise(random.Random(seed + i))
            _generate(v)
            report.case(distinct_key=(i, vname))
            report.count("respelling." + vname)
            replay = {"seed": seed, "model_index": i, "variant": vname, "files_base": files, "files_variant": c01._files(v)}
            if not v.gen_ok:
                report.violation("respelled-model-rejected", dict(replay, error=v.err), "a model accepted in one spelling is rejected in another")
                continue
            for tgt in ("out_cpp", "out_py", "out_matlab", "out_json"):
                d = _diff_trees(os.path.join(base.root, tgt), os.path.join(v.root, tgt))
                report.count("compared." + tgt)
                if d:
                    report.violation(f"respelling-changes-generated-code:{tgt}", dict(replay, first_difference=d),
                                     "a pure syntax alternative changed the generated code")
                    break
        # (1b) block-style YAML with documentation on some nodes, with and without comment blocks that are not documentation
        #      (separated from the node by an empty line: section markers, notes, licence headers) and end-of-line comments
        if i <= n or i % 3 == 0:
            trees = []
            for vname, detached in (("documented", None), ("documented+detached-blocks", seed * 17 + i)):
                pb = copy.deepcopy(pkg)
                pb.block, pb.comment_lines, pb.detached_comments = True, ("doc", 0.5, seed * 7 + i), detached
                for imp in pb.imports:
                    imp.block, imp.comment_lines, imp.detached_comments = True, ("doc", 0.5, seed * 7 + i + 1), (None if detached is None else detached + 1)
                v = codeclab.Lab(sc, ybin, f"{i}{vname}", g, pkg=pb, ndjson=True, want_cpp=True, want_matlab=True)
                v.spell_rng = random.Random(seed + 1)
                _generate(v)
                trees.append(v)
            report.case(distinct_key=(i, "detached-comments"))
            report.count("respelling.detached-comment-blocks")
            a, b = trees
            replay = {"seed": seed, "model_index": i, "variant": "comment blocks that are not documentation", "files_base": c01._files(a), "files_variant": c01._files(b)}
            if a.gen_ok != b.gen_ok:
                report.violation("respelled-model-rejected", dict(replay, error=a.err or b.err), "comments changed accept/reject")
            elif a.gen_ok:
                for tgt in ("out_cpp", "out_py", "out_matlab", "out_json"):
                    d = _diff_trees(os.path.join(a.root, tgt), os.path.join(b.root, tgt))
                    report.count("compared." + tgt)
                    if d:
                        report.violation(f"non-documentation-comments-change-generated-code:{tgt}", dict(replay, first_difference=d),
                                         "comment blocks separated from a node by an empty line (not documentation) changed the generated code")
                        break
        # (1c) the same definitions spread over several YAML documents of one file ('---' after every definition / every second definition)
        if i <= n or i % 3 == 0:
            for k in (1, 2):
                pd = copy.deepcopy(pkg)
                pd.documents = k
                for imp in pd.imports:
                    imp.documents = k
                v = codeclab.Lab(sc, ybin, f"{i}docs{k}", g, pkg=pd, ndjson=True, want_cpp=True, want_matlab=True)
                v.spell_rng, v.expanded_p = random.Random(seed + 1), 0.05
                _generate(v)
                report.case(distinct_key=(i, "documents", k))
                report.count("respelling.yaml-documents")
                replay = {"seed": seed, "model_index": i, "variant": f"a new YAML document after every {k} definition(s)", "files_base": files, "files_variant": c01._files(v)}
                if not v.gen_ok:
                    report.violation("respelled-model-rejected", dict(replay, error=v.err), "a model accepted as one YAML document is rejected when spread over several documents")
                    continue
                for tgt in ("out_cpp", "out_py", "out_matlab", "out_json"):
                    d = _diff_trees(os.path.join(base.root, tgt), os.path.join(v.root, tgt))
                    report.count("compared." + tgt)
                    if d:
                        report.violation(f"yaml-documents-change-generated-code:{tgt}", dict(replay, first_difference=d),
                                         "spreading the definitions of a file over several YAML documents changed the generated code")
                        break
        # (2) definition order / file split
        p2 = copy.deepcopy(pkg)
        rr = random.Random(seed * 31 + i)
        rr.shuffle(p2.defs)
        names = [d["name"] for d in p2.defs]
        if len(names) > 2:
            k = rr.randrange(1, len(names))
            p2.files = [names[:k], names[k:]]
        for imp in p2.imports:
            rr.shuffle(imp.defs)
        v = codeclab.Lab(sc, ybin, f"{i}order", g, pkg=p2, ndjson=False, want_cpp=False)
        v.spell_rng = random.Random(seed + 1)
        v.prepare()
        b2 = codeclab.Lab(sc, ybin, f"{i}base2", g, pkg=pkg, ndjson=False, want_cpp=False)
        b2.spell_rng = random.Random(seed + 1)
        b2.prepare()
        report.case(distinct_key=(i, "order"))
        report.count("reordering")
        replay = {"seed": seed, "model_index": i, "variant": "definition order + file split", "files_base": files, "files_variant": c01._files(v)}
        if not v.ok or not b2.ok:
            report.violation("reordered-model-rejected", dict(replay, error=v.err or b2.err), "definition order or file layout changed accept/reject")
        else:
            if v.schemas != b2.schemas:
                bad = [k for k in b2.schemas if v.schemas.get(k) != b2.schemas[k]]
                report.violation("reordering-changes-schema", dict(replay, protocols=bad), "")
            else:
                _same_behaviour(report, lean, b2, v, replay, seed)
        # (3) one rule violation, under every spelling
        p3 = copy.deepcopy(pkg)
        recs = [d for d in p3.defs if d["kind"] == "record" and not d.get("tparams")]
        if recs:
            rr.choice(recs)["fields"].append(("zzBad", ("vec", ("named", "NoSuchType", []), None)))
            verdicts = []
            for vname, ep in (("short", 0.0), ("expanded", 1.0)):
                v = codeclab.Lab(sc, ybin, f"{i}bad{vname}", g, pkg=p3, ndjson=False, want_cpp=False)
                v.spell_rng, v.expanded_p = random.Random(seed + 3), ep
                _generate(v)
                verdicts.append(v.gen_ok)
            report.case(distinct_key=(i, "invalid"))
            report.count("invalid-variants")
            if verdicts != [False, False]:
                report.violation("invalid-model-accepted-under-a-spelling", {"seed": seed, "model_index": i, "verdicts(short,expanded)": verdicts,
                                                                              "files": c01._files(v)},
                                 "a model with an unknown type is accepted under some spelling")


def order_verdicts(report, sc, ybin, seed):
    """accept-both-or-reject-both under definition order and file layout, on packages that break a rule (where a verdict that depends on which
    definition is met first shows): every multi-definition violation of the C09 matrix, its definitions in the given order, reversed, shuffled,
    and split over two files in both file orders"""
    from checks import c09
    rr = random.Random(seed * 271 + 13)
    P = lambda n: ("prim", n)
    filler = [{"kind": "record", "name": "ZzFill", "tparams": [], "fields": [("a", P("int32"))]},
              {"kind": "protocol", "name": "ZzFillP", "steps": [("a", ("named", "ZzFill", []), False)]}]
    # names that coincide without (necessarily) breaking a rule: whatever the verdict is, it is the same in every order
    coincidences = [
        ("type-parameter-named-like-a-record", lambda: [{"kind": "record", "name": "ZzPixel", "tparams": [], "fields": [("v", P("uint8"))]},
                                                        {"kind": "record", "name": "ZzImage", "tparams": ["ZzPixel"], "fields": [("data", ("vec", ("tparam", "ZzPixel"), None))]}]),
        ("type-parameter-named-like-an-alias", lambda: [{"kind": "record", "name": "ZzBoxed", "tparams": ["ZzAl"], "fields": [("v", ("tparam", "ZzAl"))]},
                                                        {"kind": "alias", "name": "ZzAl", "tparams": [], "type": P("float32")}]),
        ("type-parameter-named-like-an-enum-used-next-to-it", lambda: [{"kind": "enum", "name": "ZzE", "flags": False, "base": None, "auto": True, "values": [("a", 0), ("b", 1)]},
                                                                        {"kind": "record", "name": "ZzG", "tparams": ["ZzE"], "fields": [("v", ("tparam", "ZzE"))]},
                                                                        {"kind": "record", "name": "ZzUsesE", "tparams": [], "fields": [("e", ("named", "ZzE", []))]}]),
    ]
    for rule, mk in list(c09.DEF_VIOLATIONS) + coincidences:
        defs = mk()
        if isinstance(defs, str):
            defs = c09._cycle(defs, "Nope") if not defs.startswith("through-imported") else None
        if not defs or len(defs) < 2:
            continue
        orders = {"as-written": list(defs), "reversed": list(reversed(defs))}
        sh = list(defs)
        rr.shuffle(sh)
        orders["shuffled"] = sh
        verdicts = {}
        for oname, ds in orders.items():
            for layout in ("one-file", "two-files", "two-files-swapped"):
                pkg = modelgen.Package("Ord")
                pkg.defs = copy.deepcopy(filler[:1] + ds + filler[1:])
                if layout != "one-file":
                    names = [d["name"] for d in pkg.defs]
                    k = 1 + len(ds) // 2
                    pkg.files = [names[:k], names[k:]] if layout == "two-files" else [names[k:], names[:k]]
                ok, text, d = c09._validate(ybin, sc.path("ord"), f"{rule}-{oname}-{layout}", pkg, None)
                verdicts[(oname, layout)] = ok
                report.case(distinct_key=("order-verdict", rule, oname, layout))
                report.count("order-verdicts")
                if "panic" in text or "goroutine " in text:
                    report.violation("order:panic", {"rule": rule, "order": oname, "layout": layout, "output": text[-1500:], "files": c09._files(d), "seed": seed}, "")
        if len(set(verdicts.values())) != 1:
            acc = [f"{o}/{l}" for (o, l), v in verdicts.items() if v]
            rej = [f"{o}/{l}" for (o, l), v in verdicts.items() if not v]
            report.violation(f"verdict-depends-on-definition-order:{rule}", {"rule": rule, "accepted_in": acc, "rejected_in": rej, "definitions": [d["name"] for d in defs], "seed": seed,
                                                                            "files_accepted": c09._files(os.path.join(sc.path("ord"), f"{rule}-{acc[0].replace('/', '-')}"))},
                             "the same definitions are accepted in one order / file layout and rejected in another")


def _generate(lab):
    """write + `yardl generate` only (no compilation)"""
    os.makedirs(lab.root, exist_ok=True)
    lab.want_cpp_compile = False
    lab.pkgdir = vlib.write_package(lab.root, lab.pkg, lab.spell_rng, ndjson=lab.ndjson, cpp=lab.want_cpp, python=True,
                                    matlab=lab.want_matlab, expanded_p=lab.expanded_p)
    if getattr(lab, "text_filter", None):
        for dp, _, fns in os.walk(lab.root):
            for fn in fns:
                if fn.endswith(".yml") and not fn.startswith("_"):
                    fp = os.path.join(dp, fn)
                    txt = lab.text_filter(open(fp).read())
                    open(fp, "w").write(txt)
    rc, out, err = vlib.yardl(lab.yardl, lab.pkgdir, "generate")
    lab.gen_ok = rc == 0
    lab.err = err[-1500:] if rc != 0 else ""
    lab.stage = "generate"


def _same_behaviour(report, lean, a, b, replay, seed):
    """both generated Python packages import, and re-serialize the same Lean-encoded streams to the same bytes"""
    g = a.gen
    for pname, pj in a.protos.items():
        vals = g.gen_step_vals(pj)
        parts = [g.gen_partition(len(v[1])) if v[0] == "stream" else [] for v in vals]
        r = lean.ask({"op": "enc_proto", "proto": pj, "parts": parts, "vals": vals, "schema": a.schemas[pname]})
        outs = []
        for lab in (a, b):
            inp, outp = lab.tmp(".ref.bin"), lab.tmp(".py.bin")
            open(inp, "wb").write(bytes.fromhex(r["hex"]))
            res = lab.run_py([{"proto": pname, "infmt": "b", "outfmt": "b", "in": inp, "out": outp}])[0]
            report.count("python-runs")
            if res["rc"] != 0:
                outs.append(("error", res["exc"][-600:]))
            else:
                outs.append(("ok", open(outp, "rb").read().hex()))
        report.case(distinct_key=(replay["model_index"], pname, "behaviour"))
        if outs[0] != outs[1]:
            # the base failing as well (a known Python defect region) is not a spelling matter
            if outs[0][0] == "error" and outs[1][0] == "error":
                continue
            report.violation("reordering-changes-behaviour", dict(replay, protocol=pname, base=outs[0][:1] + (outs[0][1][:400],),
                                                                   variant=outs[1][:1] + (outs[1][1][:400],), vals=vals if len(json.dumps(vals)) < 3000 else "(large)"),
                             "the generated Python package behaves differently after reordering / re-splitting definitions")
            return


# ------------------------------------------------------------------ dependency sort vs the Lean model

def _mentions(t, local, acc):
    k = t[0]
    if k == "named":
        if "." not in t[1] and t[1] in local:
            acc.append(t[1])
        for a in t[2]:
            _mentions(a, local, acc)
    elif k == "opt":
        _mentions(t[1], local, acc)
    elif k == "union":
        for c in t[2]:
            _mentions(c[1], local, acc)
    elif k in ("vec", "arr"):
        _mentions(t[1], local, acc)
    elif k == "map":
        _mentions(t[2], local, acc)
        _mentions(t[1], local, acc)


def toposort_level(report, sc, inproc, lean, seed, n):
    """the order `topologicalSortTypes` leaves the definitions in (and whether it reports a cycle) against Topo.sort"""
    import json
    import subprocess
    from checks import c09
    rr = random.Random(seed * 4099 + 13)
    for i in range(n):
        g = modelgen.Gen(seed * 100207 + i)
        g.avoid_bool_sequences = False
        pkg = g.gen_package(n_imports=1) if i % 3 else modelgen.spelling_directed_package()
        pkg = copy.deepcopy(pkg)
        cyc = None
        if i % 4 == 1:
            imp = pkg.imports[0]
            imp.defs = imp.defs + [{"kind": "record", "name": "ZzImpBox", "tparams": ["T"], "fields": [("v", ("tparam", "T"))]},
                                   {"kind": "alias", "name": "ZzImpWrap", "tparams": ["T"], "type": ("vec", ("tparam", "T"), None)}]
            cyc = rr.choice(c09.CYCLES)
            pkg.defs = pkg.defs + c09._cycle(cyc, imp.namespace)
        rr.shuffle(pkg.defs)
        root = sc.path(f"topo{i}")
        pd = vlib.write_package(root, pkg, random.Random(3), cpp=False, python=False, js=False)
        p = subprocess.run([inproc, "dump", pd], stdout=subprocess.PIPE, stderr=subprocess.PIPE, timeout=60)
        res = json.loads(p.stdout)
        defs = [d for d in pkg.defs if d["kind"] != "protocol"]
        names = [d["name"] for d in defs]
        local = set(names)
        deps = []
        for d in defs:
            acc = []
            if d["kind"] == "record":
                for _, ft in d["fields"]:
                    _mentions(ft, local, acc)
            elif d["kind"] == "alias":
                _mentions(d["type"], local, acc)
            deps.append([names.index(x) for x in acc])
        m = lean.ask({"op": "topo", "deps": deps, "roots": list(range(len(names)))})
        report.case(distinct_key=("topo", i))
        report.count("toposort." + ("cyclic" if cyc else "acyclic"))
        replay = {"seed": seed, "index": i, "cycle_kind": cyc, "written_order": names, "deps": {names[j]: [names[x] for x in deps[j]] for j in range(len(names))},
                  "model": m, "tool": {k: res.get(k) for k in ("validateError", "panic", "order")}, "files": c01._files_dir(root) if hasattr(c01, "_files_dir") else None}
        if "panic" in res:
            report.violation("tool:panic-in-validate", replay, "")
            continue
        tool_cycle = "reference cycle" in (res.get("validateError") or "")
        if res.get("validateError") and not tool_cycle:
            report.violation("generate:model", dict(replay, error=res["validateError"][:800]), "")
            continue
        if tool_cycle != bool(m.get("cycle")):
            report.violation("toposort:cycle-verdict-differs", dict(replay, theorem_or_correspondence="Topo.sort vs topologicalSortTypes"),
                             "the tool and the model disagree on whether the definitions contain a reference cycle")
            continue
        if tool_cycle:
            continue
        got = res["order"].get(pkg.namespace, [])
        want = [names[j] for j in m["order"]]
        pos = {n_: k for k, n_ in enumerate(got)}
        bad = [(names[j], names[x]) for j in range(len(names)) for x in deps[j] if pos.get(names[x], 1 << 30) >= pos.get(names[j], -1)]
        if sorted(got) != sorted(names) or bad:
            report.violation("toposort:definitions-not-in-dependency-order", dict(replay, used_before_defined=bad[:10]),
                             "after validation a definition precedes one it depends on (generated code would use a type before declaring it)")
        elif got != want:
            report.count("toposort.order-differs-from-model-but-sorted")
