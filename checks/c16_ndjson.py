"""C16, NDJSON leg — an NDJSON stream cut at any byte position through the generated C++ and Python NDJSON readers.

* a cut inside a line (header included) leaves a JSON document that is not complete: the reader must raise, whatever came before;
* a cut between lines leaves a well-formed, shorter line sequence: the Lean step-reader model (`nd_read`, theorem
  `ndjson_required_step_missing_is_error`) says whether a non-stream step is now missing - then the reader must raise. When only items of the
  *last stream steps* are missing, nothing in the text tells the reader so (the format has no end-of-stream marker): the reader completes normally.
  That is the recorded open finding of this property for the NDJSON format; it is reported under its own key, and only there.
"""
import json
import random

import codeclab
import jsonlab
import modelgen
from checks.c01 import _files, _errclass
from checks.c15 import several_protocols_package


def ndjson_cuts(report, sc, ybin, lean, seed, quick):
    g = modelgen.Gen(seed * 100019 + 1600, json_safe=True, cpp_json_safe=True)
    lab = codeclab.Lab(sc, ybin, 1600, g, pkg=several_protocols_package("Cutnd"), ndjson=True).prepare()
    if not lab.ok:
        report.violation(f"{lab.stage}:model", {"seed": seed, "model_index": lab.idx, "error": lab.err, "files": _files(lab)}, "")
        return
    rng = random.Random(seed * 31 + 16)
    for pname, pj in lab.protos.items():
        steps = [[s["name"], bool(s["stream"])] for s in pj]
        nstreams = sum(1 for s in pj if s["stream"])
        for k in range(1 if quick else 4):
            vals = g.gen_step_vals(pj, stream_len=rng.choice([2, 3]), size=2)
            tj = lean.ask({"op": "toj_proto", "proto": pj, "vals": vals})
            lines = [(ln[0], ln[1]) for ln in tj["lines"]]
            text = jsonlab.ndjson_text(lab.schemas[pname], lines)
            raw = text.encode("utf-8")
            ends = [i + 1 for i, b in enumerate(raw) if b == 10]          # positions just after each newline
            cuts = set(range(len(raw))) if len(raw) <= (500 if quick else 3000) else set(rng.sample(range(len(raw)), 400))
            cuts |= {e for e in ends if e < len(raw)} | {e - 1 for e in ends} | {0}
            # the header line is long (the schema): thin it out
            hdr = ends[0]
            cuts = {c for c in cuts if c >= hdr - 3 or c % (7 if quick else 2) == 0}
            if quick:
                # line boundaries (both sides of every newline) always; inside lines a sample
                keep = {e for e in ends if e < len(raw)} | {e - 1 for e in ends} | {0}
                rest = sorted(cuts - keep)
                cuts = keep | set(rng.sample(rest, min(len(rest), 60)))
            pyjobs, pend = [], []
            for cut in sorted(cuts):
                if cut >= len(raw):
                    continue
                piece = raw[:cut]
                complete = piece.count(b"\n") + (1 if (cut < len(raw) and raw[cut] == 10 and (cut == 0 or raw[cut - 1] != 10)) else 0)
                boundary = cut == 0 or raw[cut - 1] == 10 or raw[cut] == 10
                inp = lab.tmp(".cut.ndjson")
                open(inp, "wb").write(piece)
                ctx = {"proto": pname, "cut": cut, "of": len(raw), "between_lines": boundary, "complete_lines": complete, "model_index": lab.idx, "seed": seed,
                       "text_tail": piece[-300:].decode("utf-8", "replace")}
                if not boundary or complete == 0:
                    verdict = "must-raise"
                else:
                    m = lean.ask({"op": "nd_read", "steps": steps, "lines": [lines[i][0] for i in range(complete - 1)]})
                    verdict = "must-raise" if "error" in m else "reads-as-complete"
                    ctx["model"] = m
                outc = lab.tmp(".cut.cpp.bin")
                rc, err = lab.run_cpp(pname, "j", "b", inp, outc, [2] * nstreams, timeout=30)
                _judge(report, lab, "cpp", verdict, rc, err, ctx)
                outp = lab.tmp(".cut.py.bin")
                pyjobs.append({"proto": pname, "infmt": "j", "outfmt": "b", "in": inp, "out": outp})
                pend.append((verdict, ctx))
            for (verdict, ctx), res in zip(pend, lab.run_py(pyjobs)):
                _judge(report, lab, "py", verdict, res["rc"], res["exc"], ctx)


def _judge(report, lab, lang, verdict, rc, err, ctx):
    report.case(distinct_key=("ndjson-cut", ctx["proto"], ctx["cut"], ctx["text_tail"], lang))
    report.count(f"ndjson-cut.{'between-lines' if ctx['between_lines'] else 'inside-a-line'}.{lang}")
    replay = dict(ctx, lang=lang, rc=rc, stderr=err, files=_files(lab))
    if rc == -9:
        report.violation(f"{lang}:ndjson-cut:hang", replay, "the reader did not return on a truncated NDJSON stream")
    elif rc not in (0, 3):
        report.violation(f"{lang}:ndjson-cut:crash:{rc}", replay, "the reader crashed on a truncated NDJSON stream")
    elif verdict == "must-raise" and rc == 0:
        report.violation(f"{lang}:ndjson-cut:{'missing-step-not-reported' if ctx['between_lines'] else 'cut-inside-a-line-read-as-complete'}", replay,
                         "a truncated NDJSON stream was read as if it were complete")
    elif verdict == "reads-as-complete" and rc == 0:
        # nothing in the remaining text says that items of the last stream steps are missing
        report.violation("ndjson:cut-between-lines-of-trailing-streams-reads-as-complete", replay,
                         "an NDJSON stream cut between two lines, with only items of the last stream steps missing, is read as a complete stream")
