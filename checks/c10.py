"""C10 — the front end is total: any input gives success or located diagnostics.

Proof: Props/C10.lean — the dependency sort terminates on every input and an accepted namespace has a
rank that strictly decreases along references (so the passes and generators that recurse along
references terminate); over facts regenerated from the current source: every pass that runs after
type resolution either returns at once when errors were reported or is on the reviewed list of passes
that tolerate unresolved types; validation errors are returned to the command (C11).
Tie: `yardl validate` (and `yardl generate` on a sample) is run, under a time and memory limit, on
(A) arbitrary and corrupted bytes, (B) structural YAML mutations of valid models, (C) random strings
over the type-syntax alphabet, (D) random computed-field expressions, (E) semantically arbitrary
models (every C09 violation and cycle kind, self-referential generics, deep nesting), (F) arbitrary
package manifests. Outcome must be exit 0, or exit 1 with an error that names a file of the package;
never a Go panic, a hang, or memory exhaustion.
"""
import concurrent.futures
import copy
import os
import random
import re
import subprocess

import gen_tables
import modelgen
import vlib
from checks import c09

THEOREMS = ["Yardl.C10.dependency_sort_total", "Yardl.C10.accepted_has_decreasing_rank", "Yardl.C10.reference_cycle_never_accepted",
            "Yardl.C10.passes_after_resolution_are_guarded", "Yardl.C10.tolerant_passes_are_as_reviewed", "Yardl.C10.validation_errors_reach_the_exit_status"]

TIME_LIMIT = 20
ALPHABET = list("<>()[],*?->:. \t") + ["int", "string", "float", "Foo", "T", "null", "3", "0", "18446744073709551616", "x", "->", "?", "*", "[]", "!stream"]
EXPR_TOKENS = ["a", "b", "v", "m", "1", "2.5", "'s'", "+", "-", "*", "/", "**", "(", ")", "[", "]", ",", ".", "size", "dimensionCount", "dimensionIndex", "as", "int", "float32",
               ":", "==", "x", "0x10", "1e400", "99999999999999999999999999", "!switch", "{", "}", "_", "?"]


def run(report, tier, seed):
    quick = tier == "quick"
    report.rule = ("a case = one package directory (model files + manifest) given to `yardl validate` / `yardl generate` under a 20 s / 4 GiB limit; "
                   "distinct = distinct file contents; non-trivial = all")
    with vlib.Scratch("vf-c10g-") as gsc:
        gen_tables.generate(gsc)
    lean_ok, _ = vlib.check_lean(report, "Props.C10", THEOREMS)
    if not lean_ok:
        report.violation("lean:Props.C10", {"theorem_or_correspondence": "Props.C10 does not build or audit (pass list / guards of the current source?)",
                                            "log": (report.extra.get("lean_build_log") or report.extra.get("lean_axiom_log", ""))[-3000:]},
                         "no-failing-input-found")
    with vlib.Scratch("vf-c10-") as sc:
        ybin = vlib.build_yardl(sc)
        rng = random.Random(seed * 6007 + 10)
        n = 700 if quick else 12000
        cases = list(corpus_cases(sc)) + list(cycle_cases(sc)) + list(type_position_cases(sc)) + list(boundary_cases(rng, sc, quick)) + list(generate_cases(rng, sc, seed, n)) + list(layered_cases(rng, sc, 6 if quick else 40))
        with concurrent.futures.ThreadPoolExecutor(max_workers=vlib.NCPU) as ex:
            results = list(ex.map(lambda c: execute(ybin, c), cases))
        for c, (rc, out, secs, cmd) in zip(cases, results):
            judge(report, c, rc, out, secs, cmd, seed)


class Case:
    def __init__(self, kind, root, files, manifest, generate=False):
        self.kind, self.root, self.files, self.manifest, self.generate = kind, root, files, manifest, generate


def write_case(c):
    os.makedirs(c.root, exist_ok=True)
    if c.manifest is not None:
        with open(os.path.join(c.root, "_package.yml"), "wb") as f:
            f.write(c.manifest if isinstance(c.manifest, bytes) else c.manifest.encode("utf-8", "surrogateescape"))
    for fn, data in c.files.items():
        p = os.path.join(c.root, fn)
        os.makedirs(os.path.dirname(p), exist_ok=True)
        with open(p, "wb") as f:
            f.write(data if isinstance(data, bytes) else data.encode("utf-8", "surrogateescape"))


def execute(ybin, c):
    import time
    write_case(c)
    cmd = "generate" if c.generate else "validate"
    t0 = time.time()
    try:
        p = subprocess.run(["bash", "-c", f'ulimit -v 4194304; cd "$1" && exec "$2" {cmd}', "x", c.root, ybin],
                           stdout=subprocess.PIPE, stderr=subprocess.PIPE, timeout=TIME_LIMIT)
        return p.returncode, (p.stdout + p.stderr).decode(errors="replace"), time.time() - t0, cmd
    except subprocess.TimeoutExpired:
        return -9, "TIMEOUT", time.time() - t0, cmd


def judge(report, c, rc, out, secs, cmd, seed):
    report.case(distinct_key=(c.kind.split(":")[0], tuple(sorted((k, v if isinstance(v, (str, bytes)) else str(v)) for k, v in c.files.items())), c.manifest))
    report.count("kind." + c.kind.split(":")[0])
    report.count(f"exit.{rc}")
    replay = {"seed": seed, "kind": c.kind, "command": "yardl " + cmd, "rc": rc, "seconds": round(secs, 2), "output": out[-2500:],
              "manifest": _show(c.manifest), "files": {k: _show(v) for k, v in c.files.items()}}
    sig = _signature(out)
    if rc == -9:
        report.violation(f"hang:{c.kind.split(':')[0] if not c.kind.startswith('layered') else c.kind.split(':')[0]}", replay, f"no answer within {TIME_LIMIT} s")
    elif "panic:" in out or "goroutine " in out or "runtime error" in out or "fatal error" in out:
        report.violation(f"panic:{sig}", replay, "the front end aborted with a Go panic instead of a diagnostic")
    elif rc not in (0, 1):
        report.violation(f"exit-status-{rc}:{c.kind.split(':')[0]}", replay, "exit status other than 0 / 1")
    elif rc == 1:
        case_dir = os.path.basename(os.path.dirname(c.root))   # .../caseN/pkg : any path under caseN counts (imported / missing directories too)
        if case_dir not in out and "_package.yml" not in out:
            report.violation(f"error-names-no-file:{sig}", replay, "the command failed without naming a file or directory of the package")
        else:
            # a diagnostic about the content of a model file carries a line number (`<file>.yml:<line>`); diagnostics about the
            # package file / directories (missing, unreadable, imports, versions) and I/O errors are about a file as a whole
            for ln in out.splitlines():
                m = re.search(r"❌ (\S+\.ya?ml)(:\d+)?", ln)
                if m and not m.group(2) and not m.group(1).endswith("_package.yml") and not NO_LINE_OK.search(ln):
                    report.violation(f"error-without-line:{sig}", replay, "the diagnostic names a model file but no line although the problem lies inside the file")
                    break
    if secs > 10 and rc != -9:
        report.count("slow>10s")


# whole-file problems: unreadable / not UTF-8 / empty document / I/O
NO_LINE_OK = re.compile(r"invalid (leading |trailing )?UTF-8|incomplete UTF|UTF-16|UTF-32|control characters are not allowed|is a directory|permission denied|no such file|EOF|file is empty|"
                        r"does not contain|not found")


def _signature(out):
    m = re.search(r"(panic: [^\n]{0,80})", out) or re.search(r"(runtime error[^\n]{0,60})", out) or re.search(r"(fatal error[^\n]{0,60})", out)
    if m:
        s = re.sub(r"0x[0-9a-f]+|\d+", "N", m.group(1))
        fr = re.search(r"\n(github.com/microsoft/yardl/tooling/[^\s(]+)", out)
        return s + ("@" + fr.group(1).split("/tooling/")[-1] if fr else "")
    m = re.search(r"(?:ERR|❌)[^\n]{0,100}", out)
    return re.sub(r"/tmp/[^\s:]+", "<path>", re.sub(r"\d+", "N", m.group(0)))[:100] if m else "no-message"


def _show(v):
    if v is None:
        return None
    if isinstance(v, bytes):
        try:
            return v.decode("utf-8")[:3000]
        except UnicodeDecodeError:
            return "hex:" + v.hex()[:3000]
    return v[:3000]


def valid_text(rng, i):
    g = modelgen.Gen(rng.randrange(1 << 30))
    g.avoid_bool_sequences = False
    pkg = g.gen_package(n_imports=0, n_defs=rng.choice([2, 3, 5]), n_protocols=1)
    for d in pkg.defs:
        if d["kind"] == "record" and rng.random() < 0.4 and d["fields"]:
            d["computed"] = [("c0", "1 + 2"), ("c1", d["fields"][0][0])]
    files = modelgen.package_files(pkg, rng, 0.4)
    return files["model.yml"], pkg


def generate_cases(rng, sc, seed, n):
    man = "namespace: Fz\n"
    gen_man = man + "python:\n  outputDir: ../out_py\ncpp:\n  sourcesOutputDir: ../out_cpp\n  generateCMakeLists: false\njson:\n  outputDir: ../out_json\nmatlab:\n  outputDir: ../out_matlab\n"
    for i in range(n):
        root = sc.path(f"case{i}/pkg")
        k = rng.random()
        text, pkg = valid_text(rng, i)
        b = text.encode()
        if k < 0.10:
            m = rng.choice(["random", "truncate", "flip", "insert", "nul", "bom", "crlf", "huge-line"])
            if m == "random":
                data = bytes(rng.randrange(256) for _ in range(rng.choice([0, 1, 7, 100, 3000])))
            elif m == "truncate":
                data = b[:rng.randrange(len(b) + 1)]
            elif m == "flip":
                bb = bytearray(b)
                for _ in range(rng.choice([1, 2, 8])):
                    bb[rng.randrange(len(bb))] = rng.randrange(256)
                data = bytes(bb)
            elif m == "insert":
                j = rng.randrange(len(b) + 1)
                data = b[:j] + bytes(rng.randrange(256) for _ in range(rng.choice([1, 4, 40]))) + b[j:]
            elif m == "nul":
                j = rng.randrange(len(b) + 1)
                data = b[:j] + b"\x00" + b[j:]
            elif m == "bom":
                data = rng.choice([b"\xef\xbb\xbf", b"\xff\xfe", b"\xfe\xff"]) + b
            elif m == "crlf":
                data = b.replace(b"\n", b"\r\n")
            else:
                data = b + b"Zz: " + b"[" * rng.choice([50, 2000, 20000]) + b"\n"
            yield Case("bytes:" + m, root, {"model.yml": data}, man)
        elif k < 0.40:
            yield Case("yaml:" + "mut", root, {"model.yml": yaml_mutation(rng, text)}, man, generate=rng.random() < 0.1)
        elif k < 0.55:
            ts = "".join(rng.choice(ALPHABET) for _ in range(rng.choice([1, 2, 3, 5, 9, 30])))
            site = rng.choice(["alias", "field", "step", "stream", "generic-header"])
            if site == "alias":
                txt = f"Zz: {q(ts)}\n"
            elif site == "field":
                txt = f"Zz: !record\n  fields:\n    a: {q(ts)}\n"
            elif site == "step":
                txt = f"Zz: !protocol\n  sequence:\n    a: {q(ts)}\n"
            elif site == "stream":
                txt = f"Zz: !protocol\n  sequence:\n    a: !stream\n      items: {q(ts)}\n"
            else:
                txt = f"{q('Zz' + ts)}: !record\n  fields:\n    a: int\n"
            yield Case("typestring:" + site, root, {"model.yml": text + "\n" + txt}, man)
        elif k < 0.68:
            ex = " ".join(rng.choice(EXPR_TOKENS) for _ in range(rng.choice([1, 2, 3, 5, 8, 15])))
            txt = ("Zz: !record\n  fields:\n    a: int\n    b: float32?\n    v: !vector {items: int, length: 3}\n    m: string->int\n"
                   "    x: !array {items: float, dimensions: [p, q]}\n    u: [null, int, string]\n  computedFields:\n    c: " + q(ex) + "\n")
            if rng.random() < 0.3:
                txt = txt.replace("    c: " + q(ex), "    c:\n      !switch u:\n        int i: " + q(ex) + "\n        _: 0")
            yield Case("expression", root, {"model.yml": text + "\n" + txt}, man)
        elif k < 0.88:
            yield semantic_case(rng, sc, i, pkg, gen_man)
        else:
            yield manifest_case(rng, root, text)


def q(s):
    import json
    return json.dumps(s)


CORPUS = [
    # minimised inputs of past failures: they run first on every tier
    ("expression-subscript-after-as", "R: !record\n  fields:\n    a: float32?\n  computedFields:\n    c: \"a as int [0]\"\n", None),
    ("expression-subscript-after-dot", "R: !record\n  fields:\n    a: float32?\n  computedFields:\n    c: \"1 as 's' [\"\n", None),
    ("null-definition-name", "null: \"T*\"\n~: int\nR: !record\n  fields:\n    a: int\n", None),
    ("seq-tag-on-mapping", "P: !protocol\n  sequence:\n    s: !!seq {a: date, b: int}\n", None),
    ("record-tag-on-sequence", "G<T>: !record\n- fields:\n    f0: uint16\nE: !enum\n- values: [a]\nP: !protocol [a]\nX: !generic [x]\n", None),
    ("map-tag-on-sequence", "A: !array {items: int, dimensions: !!map [x]}\nF: !enum\n  values: !!map [a, b, c]\nR: !record\n  fields: !!map [a]\n", None),
    ("self-version", "R: !record\n  fields:\n    a: int\nP: !protocol\n  sequence:\n    s: R\n", "namespace: Fz\nversions:\n  v0: .\n"),
    ("nested-generic-arguments-30-deep", "Box<T>: !record\n  fields:\n    v: T\nZ: \"" + "Box<" * 30 + "int" + ">" * 30 + "\"\nP: !protocol\n  sequence:\n    a: Z\n", None),
    ("generic-null-argument", "Box<T>: !record\n  fields:\n    v: T\nZ: !generic {name: Box, args: [null]}\n", None),
    ("null-only-union-case", "Zz: [[null], float]\nYy: !union {a: [null], b: float}\nXx: [[null], [null]]\n", None),
    ("empty-definitions", "E: !enum\nR: !record\nP: !protocol\nA:\n", None),
    ("empty-subscript", "R: !record\n  fields:\n    v: int*3\n    w: int*\n    m: string->int\n    d: !array {items: int}\n    x: !array {items: int, dimensions: 2}\n"
                        "  computedFields:\n    c1: v[]\n    c2: w[]\n    c3: m[]\n    c4: d[]\n    c5: x[]\n", None),
    ("tagged-versions-node", "R: int\n", "namespace: Fz\nversions: !!map [a]\n"),
    ("tagged-imports-node", "R: int\n", "namespace: Fz\nimports: !!seq {a: b}\n"),
    ("labelled-subscript-on-unnamed-dimensions", "R: !record\n  fields:\n    z: !array {items: int, dimensions: 2}\n    zz: !array {items: int, dimensions: [3, 3]}\n"
                                                 "  computedFields:\n    c1: \"z[x: 1, y: 2]\"\n    c2: \"zz[y: 1, x: 2]\"\n", None),
    ("enum-base-in-alias-cycle", "A: B\nB: A\nEn: !enum\n  base: A\n  values: [a, b]\nFl: !flags\n  base: B\n  values: [a, b]\n", None),
    ("enum-base-in-longer-cycle", "A: B?\nB: C*\nC: A\nEn: !enum\n  base: C\n  values: {a: 1}\n", None),
    ("null-package-file", "X: int\n", "null\n"),
    ("tilde-package-file", "X: int\n", "~\n"),
    ("document-marker-package-file", "X: int\n", "---\n"),
    ("non-integer-vector-length", "R: !record\n  fields:\n    v: !vector {items: int, length: abc}\n", None),
    ("non-integer-enum-value", "E: !enum\n  values:\n    a: xyz\n", None),
    # anchors and aliases in every position that holds a type: reused, and self-referential (the anchor is registered when the node opens, so a node can
    # contain an alias of itself; yaml.v3's own decoder guards against that, a hand-written node walker must too)
    ("yaml-alias-reuses-a-type", "R: !record\n  fields:\n    image: &img !array {items: float, dimensions: 2}\n    mask: *img\n    v: &v int*\n    w: *v\nP: !protocol\n  sequence:\n    a: &s R\n    b: *s\n", None),
    ("yaml-self-referential-vector", "R: !record\n  fields:\n    children: &tree !vector {items: *tree}\n", None),
    ("yaml-self-referential-union", "R: !record\n  fields:\n    value: &v [int, string, *v]\n", None),
    ("yaml-self-referential-map-and-array", "R: !record\n  fields:\n    m: &m !map {keys: string, values: *m}\n    a: &a !array {items: *a}\n    g: &g !generic {name: Box, args: [*g]}\nBox<T>: !record\n  fields:\n    v: T\n", None),
    ("yaml-self-referential-step-and-stream", "P: !protocol\n  sequence:\n    s: &s !stream {items: *s}\n    t: &t [null, *t]\n", None),
    ("yaml-self-referential-definitions", "A: &a\n  - *a\nB: &b !record\n  fields: *b\nE: &e !enum\n  values: *e\nN: &n !union {x: *n}\n", None),
    ("yaml-self-referential-merge-key", "R: &r !record\n  <<: *r\n  fields:\n    a: int\n", None),
    ("yaml-mutual-aliases", "R: !record\n  fields:\n    a: &a [int, *b]\n    b: &b [float, *a]\n", None),
    ("yaml-self-referential-manifest", "R: int\n", "namespace: Fz\nimports: &i [*i]\nversions: &v {v0: *v}\n"),
    # a latest version that defines nothing (empty, comment only, aliases only) while a previous version declares a protocol / types
    ("empty-latest-version-with-previous-protocol", {"model.yml": "# nothing yet\n", "../old/_package.yml": "namespace: Fz\n", "../old/model.yml": "P: !protocol\n  sequence:\n    a: int\n"},
     "namespace: Fz\nversions:\n  v0: ../old\n"),
    ("latest-version-without-the-previous-protocol", {"model.yml": "A: int\n", "../old/_package.yml": "namespace: Fz\n", "../old/model.yml": "R: !record\n  fields:\n    a: int\nP: !protocol\n  sequence:\n    a: R\nQ: !protocol\n  sequence:\n    b: R*\n"},
     "namespace: Fz\nversions:\n  v0: ../old\n"),
    ("empty-previous-version", {"model.yml": "P: !protocol\n  sequence:\n    a: int\n", "../old/_package.yml": "namespace: Fz\n", "../old/model.yml": "\n"}, "namespace: Fz\nversions:\n  v0: ../old\n"),
    # open finding: positions the YAML library does not report
    ("yaml-unknown-anchor", "R: !record\n  fields:\n    a: int\n    b: *nope\n", None),
    ("yaml-problem-on-first-line", "\tR: !record\n  fields:\n    a: int\n", None),
    ("non-integer-dimension-length", "R: !record\n  fields:\n    a: !array {items: int, dimensions: [!!int abc]}\n", None),
]


BOUNDARY = [0, 1, 2, 3, 127, 128, 255, 256, 32767, 32768, 65535, 65536, 2 ** 31 - 1, 2 ** 31, 2 ** 32 - 1, 2 ** 32, 2 ** 53, 2 ** 63 - 1, 2 ** 63, 2 ** 63 + 1,
            2 ** 64 - 1, 2 ** 64, 2 ** 64 + 1, 2 ** 65, 10 ** 30, 10 ** 400]

# every place of a model where an integer is read: computed-field expressions (index arguments, subscripts, arithmetic, conversions) and YAML scalars
INT_EXPRESSIONS = ["size(x, {n})", "size(y, {n})", "size(d, {n})", "size(v, {n})", "size(w, {n})", "x[{n}, 0]", "x[0, {n}]", "x[{n}]", "y[{n}, 0]", "d[{n}]", "v[{n}]", "w[{n}]",
                   "x[p: {n}, q: 0]", "z[{n}, 0]", "zz[0, {n}]", "z[p: {n}, q: 0]", "zz[q: 0, p: {n}]", "m[{n}]", "km[{n}]", "{n}", "a + {n}", "{n} - a", "a * {n}", "a / {n}", "a ** {n}", "{n} as int8", "{n} as uint64", "{n} as float32", "{n} as string",
                   "dimensionIndex(x, {n})", "dimensionCount({n})", "size({n})", "{n}[0]", "s[{n}]", "({n})", "-{n}", "- {n}", "{n}.5", "{n}e{n}", "0x{h}", "{n} + {n}",
                   "size(x, {n} + 0)", "x[{n} as int, 0]"]
INT_YAML = ["V: !vector {{items: int, length: {n}}}", "A: !array {{items: int, dimensions: {n}}}", "A: !array {{items: int, dimensions: [{n}]}}", "A: !array {{items: int, dimensions: {{p: {n}}}}}",
            "A: !array {{items: int, dimensions: [{n}, {n}]}}", "A: \"int[{n}]\"", "A: \"int[p:{n}]\"", "A: \"int*{n}\"", "A: \"int[{n},{n}]\"",
            "E: !enum\n  values:\n    a: {n}", "E: !enum\n  base: uint8\n  values:\n    a: {n}", "E: !enum\n  base: int64\n  values:\n    a: {n}\n    b: -{n}",
            "E: !flags\n  values:\n    a: {n}", "E: !flags\n  base: uint64\n  values:\n    a: {n}\n    b:", "E: !enum\n  values:\n    a: {n}\n    b:\n    c:"]


# argument lists of every arity (none, one, too many) in every position that takes one
ARITY_EXPRESSIONS = [t.format(a=a) for t in ("x[{a}]", "y[{a}]", "z[{a}]", "zz[{a}]", "d[{a}]", "v[{a}]", "w[{a}]", "m[{a}]", "km[{a}]", "s[{a}]", "a[{a}]", "size({a})", "size(x, {a})", "dimensionIndex({a})",
                                              "dimensionIndex(x, {a})", "dimensionCount({a})", "nope({a})")
                     for a in ("", "0", "0, 0", "0, 0, 0", "p: 0", "p: 0, q: 0", "q: 0, p: 0", "p: 0, 0", "'p'", "x", "a, a")]


def boundary_cases(rng, sc, quick):
    """boundary integers in every position where the front end reads one (directed: all positions x all values on every tier)"""
    man = "namespace: Fz\n"
    rec = ("R: !record\n  fields:\n    a: int\n    s: string\n    x: !array {items: float, dimensions: [p, q]}\n    y: !array {items: float, dimensions: {p: 4, q: 8}}\n"
           "    d: !array {items: float}\n    v: !vector {items: int, length: 3}\n    w: int*\n    m: string->int\n    km: uint64->int\n"
           "    z: !array {items: float, dimensions: 2}\n    zz: !array {items: float, dimensions: [3, 3]}\n  computedFields:\n    c: ")
    k = 0
    for tmpl in INT_EXPRESSIONS:
        for n in BOUNDARY:
            for sign in ("", "-"):
                if sign and tmpl.startswith("-"):
                    continue
                ex = tmpl.format(n=sign + str(n), h=format(n, "x"))
                k += 1
                yield Case("boundary:expression", sc.path(f"bnd{k}/pkg"), {"model.yml": rec + q(ex) + "\n"}, man)
    for ex in ARITY_EXPRESSIONS:
        k += 1
        yield Case("boundary:arity", sc.path(f"bnd{k}/pkg"), {"model.yml": rec + q(ex) + "\n"}, man)
    for tmpl in INT_YAML:
        for n in BOUNDARY:
            for sign in ("", "-"):
                k += 1
                txt = tmpl.format(n=sign + str(n)) + "\nP: !protocol\n  sequence:\n    a: " + tmpl.split(":")[0] + "\n"
                yield Case("boundary:yaml", sc.path(f"bnd{k}/pkg"), {"model.yml": txt}, man)


# every expression form that can carry a reference to another computed field: a cycle of computed fields must be reported
# whichever form it passes through ({f} is the reference; inline forms and !switch forms)
CYCLE_CARRIERS = ['"{f} + 1"', '"1 - {f}"', '"-{f}"', '"({f})"', '"{f} as float64"', '"v[{f}]"', '"w[{f}]"', '"x[{f}, 0]"', '"x[p: 0, q: {f}]"', '"km[{f} as uint64]"',
                  '"size(v, {f})"' if False else '"size(w) + {f}"', '"{f} * {f}"', '"a + ({f} - 1) * 2"',
                  "\n      !switch o:\n        int i: i + {f}\n        _: 0", "\n      !switch o:\n        int: {f}\n        _: 0", "\n      !switch o:\n        int i: i\n        _: {f}",
                  "\n      !switch u:\n        int i: {f}\n        string s: 0", "\n      !switch u:\n        int: 0\n        string s: {f}",
                  "\n      !switch o:\n        int i:\n          !switch u:\n            int j: i + j + {f}\n            string s: 0\n        _: 0"]


def cycle_cases(sc):
    man = "namespace: Fz\n"
    rec = ("R: !record\n  fields:\n    a: int\n    o: int?\n    u: [int, string]\n    x: !array {items: int, dimensions: [p, q]}\n    v: !vector {items: int, length: 3}\n"
           "    w: int*\n    km: uint64->int\n  computedFields:\n")
    k = 0
    for carrier in CYCLE_CARRIERS:
        for shape in ("self", "two", "three", "carrier-twice"):
            k += 1
            if shape == "self":
                body = f"    c0: {carrier.format(f='c0')}\n"
            elif shape == "two":
                body = f"    c0: {carrier.format(f='c1')}\n    c1: c0\n"
            elif shape == "three":
                body = f"    c0: c1\n    c1: {carrier.format(f='c2')}\n    c2: c0 + 1\n"
            else:
                body = f"    c0: {carrier.format(f='c1')}\n    c1: {carrier.format(f='c0')}\n"
            yield Case("directed:computed-field-cycle", sc.path(f"cyc{k}/pkg"), {"model.yml": rec + body}, man)
        # the same carrier without a cycle is a valid model (or an ordinary type error): it must not hang either
        k += 1
        yield Case("directed:computed-field-chain", sc.path(f"cyc{k}/pkg"), {"model.yml": rec + f"    c0: {carrier.format(f='c1')}\n    c1: a + 1\n"}, man)


# a type that cannot be resolved, at every position of a model where a type can be written: the diagnostic names the file and the line
TYPE_POSITIONS = [
    ("field", "R: !record\n  fields:\n    a: {t}\n"),
    ("vector-items", "R: !record\n  fields:\n    a: !vector {{items: {t}}}\n"),
    ("array-items", "R: !record\n  fields:\n    a: !array {{items: {t}, dimensions: 2}}\n"),
    ("map-value", "R: !record\n  fields:\n    a: !map {{keys: string, values: {t}}}\n"),
    ("union-case", "R: !record\n  fields:\n    a: !union {{p: {t}, q: int}}\n"),
    ("optional", "R: !record\n  fields:\n    a: [null, {t}]\n"),
    ("alias", "A: {t}\n"),
    ("generic-argument", "Box<T>: !record\n  fields:\n    v: T\nR: !record\n  fields:\n    a: !generic {{name: Box, args: [{t}]}}\n"),
    ("step", "P: !protocol\n  sequence:\n    a: {t}\n"),
    ("stream-items", "P: !protocol\n  sequence:\n    a: !stream {{items: {t}}}\n"),
    ("enum-base", "E: !enum\n  base: {t}\n  values: [a, b]\n"),
    ("switch-type-pattern", "R: !record\n  fields:\n    u: [int, float]\n  computedFields:\n    c:\n      !switch u:\n        int: 1\n        {t}: 2\n        _: 3\n"),
    ("switch-declaration-pattern", "R: !record\n  fields:\n    u: [int, float]\n  computedFields:\n    c:\n      !switch u:\n        int: 1\n        {t} v: 2\n        _: 3\n"),
    ("switch-declaration-pattern-on-optional", "R: !record\n  fields:\n    o: int?\n  computedFields:\n    c:\n      !switch o:\n        {t} v: 2\n        _: 3\n"),
    ("nested-switch-declaration-pattern", "R: !record\n  fields:\n    o: int?\n    u: [int, float]\n  computedFields:\n    c:\n      !switch o:\n        int i:\n          !switch u:\n            {t} w: i\n            _: 0\n        _: 3\n"),
    ("conversion-target", "R: !record\n  fields:\n    a: int\n  computedFields:\n    c: a as {t}\n"),
]
UNRESOLVABLE = ['"NoSuchType"', '"NoSuch<int>"', '"int<float>"', '"P0"', '"T"']


def type_position_cases(sc):
    man = "namespace: Fz\n"
    k = 0
    for pos, tmpl in TYPE_POSITIONS:
        for t in UNRESOLVABLE:
            txt = t.strip('"') if ("switch" in pos or pos == "conversion-target") else t
            k += 1
            # P0: a protocol (cannot be referenced as a type); Other<T>: T is only the parameter of another definition
            model = tmpl.format(t=txt) + "P0: !protocol\n  sequence:\n    z: int\nOther<T>: !record\n  fields:\n    q: T\n"
            yield Case("directed:unresolvable-type:" + pos, sc.path(f"tpos{k}/pkg"), {"model.yml": model}, man)
            yield Case("directed:unresolvable-type:" + pos, sc.path(f"tpos{k}b/pkg"), {"first.yml": "Fine: !record\n  fields:\n    x: int\n", "second.yml": model}, man)


def corpus_cases(sc):
    for name, model, man in CORPUS:
        files = model if isinstance(model, dict) else {"model.yml": model}
        yield Case("corpus:" + name, sc.path(f"corpus-{name}/pkg"), dict(files), man if man is not None else "namespace: Fz\n")
        yield Case("corpus:" + name, sc.path(f"corpus-{name}-gen/pkg"), dict(files),
                   (man if man is not None else "namespace: Fz\n") + "python:\n  outputDir: ../out_py\ncpp:\n  sourcesOutputDir: ../out_cpp\n  generateCMakeLists: false\nmatlab:\n  outputDir: ../out_matlab\n",
                   generate=True)


def layered_cases(rng, sc, n):
    """small models that are deep: every record holds two fields of the next record type (a DAG with 2^depth paths)"""
    all_out = ("python:\n  outputDir: ../out_py\ncpp:\n  sourcesOutputDir: ../out_cpp\n  generateCMakeLists: false\njson:\n  outputDir: ../out_json\n"
               "matlab:\n  outputDir: ../out_matlab\n")

    def model(layers, variant, extra=""):
        def ref(i):
            x = f"R{i}"
            return {"rec": x, "vec": x + "*", "opt": x + "?", "map": "string->" + x, "box": f"Box<{x}>", "arr": x + "[]"}.get(variant, x)
        s = "Box<T>: !record\n  fields:\n    v: T\n    w: T?\n"
        for i in range(layers):
            if variant == "union":
                s += f"R{i}: !record\n  fields:\n    a: [int, R{i + 1}]\n    b: R{i + 1}\n"
            else:
                s += f"R{i}: !record\n  fields:\n    a: {q(ref(i + 1))}\n    b: {q(ref(i + 1))}\n"
            if i == layers - 1:
                s += extra
        s += f"R{layers}: !record\n  fields:\n    x: int\nP: !protocol\n  sequence:\n    s: R0\n    t: !stream\n      items: R1\n"
        return s
    for i in range(n):
        variant = ["rec", "vec", "opt", "map", "box", "union", "arr"][i % 7]
        layers = rng.choice([24, 32, 40])
        yield Case("layered:" + variant, sc.path(f"layered{i}/pkg"), {"model.yml": model(layers, variant)}, "namespace: Ly\n" + all_out, generate=True)
    # the same kind of model compared with a previous version (open known finding)
    yield Case("layered-evolution", sc.path("layeredevo/pkg"), {"model.yml": model(30, "rec", "    z: int?\n"), "../old/model.yml": model(30, "rec"),
                                                                 "../old/_package.yml": "namespace: Ly\n"}, "namespace: Ly\nversions:\n  v0: ../old\n")


YAML_NODES = ["null", "~", "3", "-1", "1.5", "true", '""', '"x"', "[]", "{}", "[int]", "{a: int}", "[[[]]]", "!record", "!enum", "!flags", "!protocol", "!vector", "!array",
              "!map", "!union", "!stream", "!generic", "!switch", "!!binary aGk=", "!!set {a, b}", "&a x", "*a", "&zz [*zz]", "&zy !vector {items: *zy}", "&zx {k: *zx}", "&zw [int, *zw]", "<<: {a: int}", "? [a, b]\n    : c", "|\n      text", ">-\n      text",
              "!!float .inf", "!!int 0x7fffffffffffffffffff", "'it''s'", '"\\u0000"', "@bad", "`bad`", "%bad"]


def yaml_mutation(rng, text):
    lines = text.split("\n")
    for _ in range(rng.choice([1, 1, 2, 3])):
        m = rng.choice(["replace-value", "replace-key", "delete-line", "duplicate-line", "indent", "dedent", "swap-tag", "insert-node", "replace-tag", "tab", "colon"])
        idx = [j for j, ln in enumerate(lines) if ln.strip()]
        if not idx:
            break
        j = rng.choice(idx)
        ln = lines[j]
        if m == "replace-value" and ":" in ln:
            lines[j] = ln.split(":", 1)[0] + ": " + rng.choice(YAML_NODES)
        elif m == "replace-key" and ":" in ln:
            ind = len(ln) - len(ln.lstrip())
            lines[j] = " " * ind + rng.choice(["", "3", "null", "Zz<T", "[a]", "'x y'", "a.b", "values", "fields", "sequence", "base", "items", "length", "dimensions", "keys", "name", "args",
                                               "computedFields", "Ünï", "a" * 300, "<<"]) + ":" + ln.split(":", 1)[1]
        elif m == "delete-line":
            del lines[j]
        elif m == "duplicate-line":
            lines.insert(j, ln)
        elif m == "indent":
            lines[j] = "  " + ln
        elif m == "dedent":
            lines[j] = ln[2:] if ln.startswith("  ") else ln
        elif m == "swap-tag":
            tags = ["!record", "!enum", "!flags", "!protocol", "!vector", "!array", "!map", "!union", "!stream", "!generic"]
            for t in tags:
                if t in ln:
                    lines[j] = ln.replace(t, rng.choice(tags))
                    break
        elif m == "insert-node":
            ind = len(ln) - len(ln.lstrip())
            lines.insert(j, " " * ind + rng.choice(["k", "fields", "values", "sequence", "x"]) + ": " + rng.choice(YAML_NODES))
        elif m == "replace-tag" and "!" in ln:
            lines[j] = re.sub(r"![a-z]+", rng.choice(["!!str", "!!seq", "!!map", "!", "!!", "!<tag:x>", "!record!"]), ln, count=1)
        elif m == "tab":
            lines[j] = "\t" + ln
        elif m == "colon":
            lines[j] = ln.replace(":", rng.choice(["", "::", " :", ":x"]), 1)
    return "\n".join(lines)


def semantic_case(rng, sc, i, pkg, gen_man):
    root = sc.path(f"case{i}")
    p = copy.deepcopy(pkg)
    imp = modelgen.Package("FzImp")
    imp.defs = [{"kind": "record", "name": "ZzImpBox", "tparams": ["T"], "fields": [("v", ("tparam", "T"))]},
                {"kind": "alias", "name": "ZzImpWrap", "tparams": ["T"], "type": ("vec", ("tparam", "T"), None)}]
    p.imports = [imp]
    kind = rng.choice(["type-violation", "def-violation", "cycle", "self-generic", "deep", "many-args", "alias-chain", "generic-cycle"])
    P = c09.P
    if kind == "type-violation":
        v = rng.choice(c09.TYPE_VIOLATIONS)
        w = rng.choice(c09.WRAPPERS)
        p.defs += c09._site_defs(rng.choice(c09.SITES), w[1](("raw", v[1])))
        kind += ":" + v[0]
    elif kind == "def-violation":
        dv = rng.choice([d for d in c09.DEF_VIOLATIONS if not d[0].startswith("cycle-")])
        p.defs += dv[1]()
        kind += ":" + dv[0]
    elif kind == "cycle":
        ck = rng.choice(c09.CYCLES)
        p.defs += c09._cycle(ck, "FzImp")
        p.defs.append({"kind": "protocol", "name": "ZzCycP", "steps": [("a", ("named", "ZzA", []), rng.random() < 0.5)]})
        kind += ":" + ck
    elif kind == "self-generic":
        body = rng.choice([("named", "ZzS", [("named", "ZzS", [("tparam", "T")])]), ("vec", ("named", "ZzS", [("opt", ("tparam", "T"))]), None),
                           ("named", "FzImp.ZzImpBox", [("named", "ZzS", [("tparam", "T")])]), ("map", P("string"), ("named", "ZzS", [("vec", ("tparam", "T"), None)]))])
        p.defs.append({"kind": rng.choice(["record", "alias"]), "name": "ZzS", "tparams": ["T"], "fields": [("f", body), ("t", ("tparam", "T"))], "type": body})
        p.defs.append({"kind": "protocol", "name": "ZzSP", "steps": [("a", ("named", "ZzS", [P("int32")]), False)]})
    elif kind == "deep":
        t = P("int32")
        for _ in range(rng.choice([20, 100, 400])):
            t = rng.choice([("opt", ("vec", t, None)), ("vec", t, None), ("map", P("string"), t), ("named", "FzImp.ZzImpBox", [t])])
        p.defs.append({"kind": "alias", "name": "ZzDeep", "tparams": [], "type": t})
        p.defs.append({"kind": "protocol", "name": "ZzDeepP", "steps": [("a", ("named", "ZzDeep", []), False)]})
    elif kind == "many-args":
        # exponential instantiation: G<G<...>> with two parameters used twice each
        p.defs.append({"kind": "record", "name": "ZzPair", "tparams": ["A", "B"], "fields": [("a", ("tparam", "A")), ("b", ("tparam", "B")), ("c", ("tparam", "A"))]})
        t = P("int32")
        for _ in range(rng.choice([5, 8, 10])):
            t = ("named", "ZzPair", [t, t])
        p.defs.append({"kind": "alias", "name": "ZzBig", "tparams": [], "type": t})
    elif kind == "alias-chain":
        nlen = rng.choice([10, 200])
        for j in range(nlen):
            p.defs.append({"kind": "alias", "name": f"ZzC{j}", "tparams": [], "type": ("named", f"ZzC{j + 1}", []) if j + 1 < nlen else rng.choice([P("int32"), ("named", "ZzC0", [])])})
    else:
        p.defs.append({"kind": "record", "name": "ZzGa", "tparams": ["T"], "fields": [("x", ("named", "ZzGb", [("tparam", "T")]))]})
        p.defs.append({"kind": "record", "name": "ZzGb", "tparams": ["T"], "fields": [("y", ("opt", ("named", "ZzGa", [("vec", ("tparam", "T"), None)])))]})
    rng.shuffle(p.defs)
    files = {}
    import io
    for pk in p.all_packages():
        d = "pkg" if pk is p else "pkg_" + pk.namespace
        for fn, txt in modelgen.package_files(pk, rng, 0.3).items():
            files[os.path.join(d, fn)] = txt
        if pk is not p:
            files[os.path.join(d, "_package.yml")] = f"namespace: {pk.namespace}\n"
    man = "namespace: Fz\nimports:\n  - ../pkg_FzImp\n" + (gen_man.split("\n", 1)[1] if rng.random() < 0.35 else "")
    gen = "outputDir" in man
    if kind == "deep" and gen and len(files.get(os.path.join("pkg", "model.yml"), "")) > 6000:
        # the generated C++ grows with the cube of the nesting depth of one type expression (60 MB at 200 levels, 100 s and
        # 0.5 GB at 400): time proportional to output is not a hang. The deepest types are validated only.
        gen = False
        man = "namespace: Fz\nimports:\n  - ../pkg_FzImp\n"
    c = Case("semantic:" + kind, os.path.join(root, "pkg"), {}, man, generate=gen)
    c.files = {os.path.relpath(os.path.join(root, k), os.path.join(root, "pkg")): v for k, v in files.items()}
    return c


def manifest_case(rng, root, text):
    m = rng.choice(["garbage", "wrong-types", "missing-import", "self-import", "self-version", "unknown-keys", "empty", "no-manifest", "bad-namespace", "import-cycle", "weird-outputs"])
    files = {"model.yml": text}
    if m == "garbage":
        man = bytes(rng.randrange(256) for _ in range(rng.choice([1, 20, 300])))
    elif m == "wrong-types":
        man = ("namespace: " + rng.choice(["3", "[a]", "{a: b}", "null", '""', "true", "!!str [a]", "!!map x"]) + "\nimports: " + rng.choice(["5", "{a: b}", "[[x]]", "x", "!!seq {a: b}", "!!seq x", "[!!str [a]]"])
               + "\nversions: " + rng.choice(["[a]", "x", "{v: [1]}", "{1: 2}", "!!map [a]", "!!map [a, b]", "!!map x", "{v: !!str [a]}", "{!!str [a]: b}"]) + "\n")
    elif m == "missing-import":
        man = "namespace: Fz\nimports:\n  - ../nowhere\n  - " + rng.choice(["/dev/null", "https://example.invalid/x", "git@x:y", "", "."]) + "\n"
    elif m == "self-import":
        man = "namespace: Fz\nimports:\n  - .\n"
    elif m == "self-version":
        man = "namespace: Fz\nversions:\n  v0: .\n"
    elif m == "unknown-keys":
        man = "namespace: Fz\nfoo: bar\ncpp:\n  nope: 1\npython: 3\n"
    elif m == "empty":
        man = ""
    elif m == "no-manifest":
        man = None
    elif m == "bad-namespace":
        man = "namespace: " + rng.choice(["lower", "With Space", "Ünï", "A.B", "class", "Int32", "x" * 500]) + "\n"
    elif m == "import-cycle":
        man = "namespace: Fz\nimports:\n  - ../other\n"
        files["../other/_package.yml"] = "namespace: Other\nimports:\n  - ../pkg\n"
        files["../other/model.yml"] = "O: int\n"
    else:
        man = "namespace: Fz\npython:\n  outputDir: " + rng.choice(["/proc/nope/x", "''", "../a\x01b", "."]) + "\n"
    return Case("manifest:" + m, root, files, man, generate=m == "weird-outputs")
